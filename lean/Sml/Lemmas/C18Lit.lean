/-
  C18, clause "a failing operation leaves the contents unchanged", as a THEOREM.

  `Sml/Model/ArrayBufLit.lean` transcribes `impl Buffer for ArrayBuf<N>` statement by statement;
  its result type `LitRes` carries the post-state of `*self` also in the `Err(OutOfMemory)`
  outcome.  Here:

  * `lit_eq_model`      the literal operations agree with the operations of `Buf.lean`
                        (same tag, same panic site, same post-state on `ok`), for EVERY state;
  * `oom_unchanged`     `lit a op = .oom a' → a' = a` (the whole representation, including the
                        bytes behind `num_elements`), for every state, without `WF`;
  * `oom_unchanged_run` along every operation sequence from `ArrayBuf.new N`, where the run
                        continues from the state CARRIED BY the failing result;
  * `no_panic_lit`      no literal operation panics on a well-formed buffer;
  * mutants             `extendBad` (copy what fits, then report `oom`), `extendLate` (capacity
                        check moved behind the copy), `pushBad` (increment before the check)
                        violate these theorems on concrete inputs (closed `example`s).
-/
import Sml.Model.ArrayBufLit
import Sml.Lemmas.C18

namespace Sml.C18
open Sml

/-! ### one literal operation -/

/-- Apply one `Buffer` operation, literal transcription. -/
def lit (a : ArrayBuf) : BOp → LitRes
  | .push b => ArrayBufLit.push a b
  | .extend s => ArrayBufLit.extendFromSlice a s
  | .truncate k => ArrayBufLit.truncate a k
  | .clear => ArrayBufLit.clear a

/-- result tag of a literal operation -/
def LitRes.tag : LitRes → Tag
  | .ok _ => .ok
  | .oom _ => .oom
  | .panic _ => .panic

/-! ### (1) the literal operations agree with the model operations -/

theorem lit_push_eq (a : ArrayBuf) (b : UInt8) :
    (ArrayBufLit.push a b).toBufRes = a.push b := by
  unfold ArrayBufLit.push ArrayBuf.push ArrayBufLit.indexSet
  by_cases h1 : a.numElements = a.N
  · simp [h1, LitRes.toBufRes]
  · by_cases h2 : a.numElements < a.buffer.length
    · simp [h1, h2, LitRes.toBufRes]
    · simp [h1, h2, LitRes.toBufRes]

theorem lit_extend_eq (a : ArrayBuf) (s : List UInt8) :
    (ArrayBufLit.extendFromSlice a s).toBufRes = a.extendFromSlice s := by
  unfold ArrayBufLit.extendFromSlice ArrayBuf.extendFromSlice ArrayBufLit.sliceFrom
    ArrayBufLit.sliceTo ArrayBufLit.copyFromSlice
  by_cases h1 : a.numElements + s.length > a.N
  · simp [h1, LitRes.toBufRes]
  · have hN : a.N = a.buffer.length := rfl
    have h2 : a.numElements ≤ a.buffer.length := by omega
    have h3 : s.length ≤ (a.buffer.drop a.numElements).length := by
      rw [List.length_drop]; omega
    have h4 : ((a.buffer.drop a.numElements).take s.length).length = s.length := by
      rw [List.length_take]; omega
    have h5 : s.length ≤ a.buffer.length - a.numElements := by omega
    simp only [h1, h2, h3, h4, h5, if_true, if_false, and_self, LitRes.toBufRes, List.drop_drop]

/-- (1) Every literal operation agrees with the corresponding operation of `Sml/Model/Buf.lean`
    once the post-state of the `Err` outcome is forgotten: same tag, same post-state on `ok`,
    same panic site.  Holds for every state (`WF` is not needed). -/
theorem lit_eq_model (a : ArrayBuf) (op : BOp) : (lit a op).toBufRes = ArrayBuf.apply a op := by
  cases op with
  | push b => exact lit_push_eq a b
  | extend s => exact lit_extend_eq a s
  | truncate k => rfl
  | clear => rfl

theorem lit_fromIterLoop_eq (xs : List UInt8) : ∀ a : ArrayBuf,
    (ArrayBufLit.fromIterLoop a xs).toBufRes = ArrayBuf.fromIter.go a xs := by
  induction xs with
  | nil => intro a; rfl
  | cons x xs ih =>
    intro a
    have h := lit_push_eq a x
    simp only [ArrayBufLit.fromIterLoop, ArrayBuf.fromIter.go]
    cases hp : ArrayBufLit.push a x with
    | ok a1 => rw [hp] at h; simp only [LitRes.toBufRes] at h; simp only [← h]; exact ih a1
    | oom a1 => rw [hp] at h; simp only [LitRes.toBufRes] at h; simp only [← h]; rfl
    | panic s => rw [hp] at h; simp only [LitRes.toBufRes] at h; simp only [← h]; rfl

/-- `FromIterator`: the literal transcription agrees with `ArrayBuf.fromIter` -/
theorem lit_fromIter_eq (n : Nat) (xs : List UInt8) :
    (ArrayBufLit.fromIter n xs).toBufRes = ArrayBuf.fromIter n xs :=
  lit_fromIterLoop_eq xs (ArrayBuf.new n)

theorem tag_eq_of_toBufRes {r : LitRes} {m : BufRes ArrayBuf} (h : r.toBufRes = m) :
    LitRes.tag r = (match m with | .ok _ => Tag.ok | .oom => Tag.oom | .panic _ => Tag.panic) := by
  subst h; cases r <;> rfl

/-! ### (2) a failing operation leaves the whole representation unchanged -/

theorem push_oom_unchanged {a a' : ArrayBuf} {b : UInt8}
    (h : ArrayBufLit.push a b = .oom a') : a' = a := by
  unfold ArrayBufLit.push at h
  split at h
  · cases h; rfl
  · split at h <;> cases h

theorem extend_oom_unchanged {a a' : ArrayBuf} {s : List UInt8}
    (h : ArrayBufLit.extendFromSlice a s = .oom a') : a' = a := by
  unfold ArrayBufLit.extendFromSlice at h
  split at h
  · cases h; rfl
  · split at h
    · cases h
    · split at h
      · cases h
      · split at h <;> cases h

/-- (2) If a literal operation returns `Err(OutOfMemory)`, the state it leaves behind is the state
    it started from - the backing array (all `N` bytes, also those behind `num_elements`) and
    `num_elements`.  No well-formedness assumption. -/
theorem oom_unchanged {a a' : ArrayBuf} {op : BOp} (h : lit a op = .oom a') : a' = a := by
  cases op with
  | push b => exact push_oom_unchanged h
  | extend s => exact extend_oom_unchanged h
  | truncate k => cases h
  | clear => cases h

/-- in particular the visible contents, the length and the capacity are unchanged -/
theorem oom_unchanged_abs {a a' : ArrayBuf} {op : BOp} (h : lit a op = .oom a') :
    abs a' = abs a ∧ a'.numElements = a.numElements ∧ a'.N = a.N ∧ a'.deref = a.deref := by
  rw [oom_unchanged h]; exact ⟨rfl, rfl, rfl, rfl⟩

/-- `truncate` and `clear` cannot fail -/
theorem truncate_clear_ok (a : ArrayBuf) :
    (∀ k, lit a (.truncate k) = .ok (a.truncate k)) ∧ lit a .clear = .ok a.clear :=
  ⟨fun _ => rfl, rfl⟩

/-- `from_iter` never returns `Err` (it unwraps) -/
theorem fromIterLoop_ne_oom (xs : List UInt8) : ∀ a a' : ArrayBuf,
    ArrayBufLit.fromIterLoop a xs ≠ .oom a' := by
  induction xs with
  | nil => intro a a' h; cases h
  | cons x xs ih =>
    intro a a' h
    simp only [ArrayBufLit.fromIterLoop] at h
    split at h
    · exact ih _ _ h
    · cases h
    · cases h

/-! ### (4) no literal operation panics on a well-formed buffer -/

theorem lit_push_WF {a : ArrayBuf} (h : WF a) (b : UInt8) :
    (a.numElements < a.N ∧
      ArrayBufLit.push a b =
        .ok { buffer := a.buffer.set a.numElements b, numElements := a.numElements + 1 }) ∨
    (a.numElements = a.N ∧ ArrayBufLit.push a b = .oom a) := by
  unfold WF at h
  unfold ArrayBufLit.push ArrayBufLit.indexSet ArrayBuf.N
  by_cases h1 : a.numElements = a.buffer.length
  · right; simp [h1]
  · left
    have h2 : a.numElements < a.buffer.length := by omega
    simp [h1, h2]

theorem lit_extend_cases (a : ArrayBuf) (s : List UInt8) :
    (a.numElements + s.length ≤ a.N ∧
      ArrayBufLit.extendFromSlice a s =
        .ok { buffer := a.buffer.take a.numElements ++ s ++
                a.buffer.drop (a.numElements + s.length),
              numElements := a.numElements + s.length }) ∨
    (a.N < a.numElements + s.length ∧ ArrayBufLit.extendFromSlice a s = .oom a) := by
  have h := lit_extend_eq a s
  unfold ArrayBuf.extendFromSlice at h
  by_cases h1 : a.numElements + s.length > a.N
  · right
    refine ⟨h1, ?_⟩
    unfold ArrayBufLit.extendFromSlice
    rw [if_pos h1]
  · left
    refine ⟨by omega, ?_⟩
    have hN : a.N = a.buffer.length := rfl
    rw [if_neg h1, if_pos (by omega)] at h
    cases hr : ArrayBufLit.extendFromSlice a s with
    | ok x => rw [hr] at h; simp only [LitRes.toBufRes, BufRes.ok.injEq] at h; rw [h]
    | oom x => rw [hr] at h; cases h
    | panic x => rw [hr] at h; cases h

/-- (4) From a well-formed buffer (`num_elements ≤ N`) no literal operation reaches a panic site
    (array index util.rs:128, the two range slicings and the `copy_from_slice` length check of
    util.rs:146). -/
theorem no_panic_lit {a : ArrayBuf} (h : WF a) (op : BOp) (s : String) : lit a op ≠ .panic s := by
  intro hp
  cases op with
  | push b =>
    rcases lit_push_WF h b with ⟨_, h1⟩ | ⟨_, h1⟩ <;> (simp only [lit] at hp; rw [h1] at hp; cases hp)
  | extend x =>
    rcases lit_extend_cases a x with ⟨_, h1⟩ | ⟨_, h1⟩ <;>
      (simp only [lit] at hp; rw [h1] at hp; cases hp)
  | truncate k => cases hp
  | clear => cases hp

/-- `extend_from_slice` cannot panic even on an ill-formed buffer: the capacity check of line 143
    implies both range checks of line 146 -/
theorem extend_never_panics (a : ArrayBuf) (x : List UInt8) (s : String) :
    ArrayBufLit.extendFromSlice a x ≠ .panic s := by
  intro hp
  rcases lit_extend_cases a x with ⟨_, h1⟩ | ⟨_, h1⟩ <;> (rw [h1] at hp; cases hp)

/-- a successful literal operation keeps the buffer well formed and keeps `N` -/
theorem lit_ok_WF {a a' : ArrayBuf} {op : BOp} (h : WF a) (ho : lit a op = .ok a') :
    WF a' ∧ a'.N = a.N := by
  have h1 : ArrayBuf.apply a op = .ok a' := by rw [← lit_eq_model, ho]; rfl
  cases hv : IdealVec.apply ⟨a.N, abs a⟩ op with
  | some v' =>
    obtain ⟨a'', g1, g2, g3, _, _⟩ := step_some h hv
    rw [h1] at g1; cases g1; exact ⟨g2, g3⟩
  | none => rw [step_none h hv] at h1; cases h1

/-- summary for a well-formed buffer: every literal operation returns `ok a'` with the state of the
    model operation (well formed, same `N`), or `oom a` with the untouched state; and the model
    operation has the same tag -/
theorem lit_eq_model_WF {a : ArrayBuf} (h : WF a) (op : BOp) :
    (∃ a', lit a op = .ok a' ∧ ArrayBuf.apply a op = .ok a' ∧ WF a' ∧ a'.N = a.N) ∨
    (lit a op = .oom a ∧ ArrayBuf.apply a op = .oom) := by
  have he := lit_eq_model a op
  cases hr : lit a op with
  | ok a' =>
    left
    rw [hr] at he
    exact ⟨a', rfl, he.symm, lit_ok_WF h hr⟩
  | oom a' =>
    right
    rw [hr] at he
    rw [oom_unchanged hr]
    exact ⟨rfl, he.symm⟩
  | panic s => exact absurd hr (no_panic_lit h op s)

/-! ### (3) runs -/

/-- one step of a literal run: the result tag, the state before the operation and the state the
    operation left behind (for `oom` this is the state CARRIED BY the result, not assumed equal) -/
structure LitStep where
  tag : Tag
  pre : ArrayBuf
  post : ArrayBuf
  deriving Repr, DecidableEq

/-- Run a sequence of operations with the literal transcription.  After `Err(OutOfMemory)` the run
    continues from the state the failing operation left behind.  A panic ends the run. -/
def litRun (a : ArrayBuf) : List BOp → List LitStep
  | [] => []
  | op :: ops =>
    match lit a op with
    | .ok a' => ⟨.ok, a, a'⟩ :: litRun a' ops
    | .oom a' => ⟨.oom, a, a'⟩ :: litRun a' ops
    | .panic _ => [⟨.panic, a, a⟩]

theorem oom_unchanged_run_from (ops : List BOp) : ∀ (a : ArrayBuf),
    ∀ st ∈ litRun a ops, st.tag = Tag.oom → st.post = st.pre := by
  induction ops with
  | nil => intro a st hst; cases hst
  | cons op ops ih =>
    intro a st hst htag
    simp only [litRun] at hst
    cases hr : lit a op with
    | ok a' =>
      rw [hr] at hst
      rcases List.mem_cons.1 hst with rfl | hst
      · cases htag
      · exact ih a' st hst htag
    | oom a' =>
      rw [hr] at hst
      rcases List.mem_cons.1 hst with rfl | hst
      · exact oom_unchanged hr
      · exact ih a' st hst htag
    | panic s =>
      rw [hr] at hst
      rcases List.mem_singleton.1 hst with rfl
      cases htag

/-- (3) Along every operation sequence from the empty `ArrayBuf<N>`: after every failing operation
    the representation (backing array and `num_elements`) and therefore the visible contents and
    the `Deref` result are those before it. -/
theorem oom_unchanged_run (N : Nat) (ops : List BOp) :
    ∀ st ∈ litRun (ArrayBuf.new N) ops, st.tag = Tag.oom →
      st.post = st.pre ∧ abs st.post = abs st.pre ∧ st.post.deref = st.pre.deref := by
  intro st hst htag
  have := oom_unchanged_run_from ops (ArrayBuf.new N) st hst htag
  rw [this]; exact ⟨rfl, rfl, rfl⟩

/-- the literal run, projected to (tag, state after the step), IS the run of `Sml/Lemmas/C18.lean`
    (whose `oom` case keeps the state by construction), whenever the start state is well formed;
    so all C18 theorems about `ArrayBuf.run` speak about the literal transcription -/
theorem litRun_eq_run (ops : List BOp) : ∀ (a : ArrayBuf), WF a →
    (litRun a ops).map (fun st => (st.tag, st.post)) = ArrayBuf.run a ops := by
  induction ops with
  | nil => intro a _; rfl
  | cons op ops ih =>
    intro a h
    simp only [litRun, ArrayBuf.run]
    rcases lit_eq_model_WF h op with ⟨a', h1, h2, h3, _⟩ | ⟨h1, h2⟩
    · rw [h1, h2]; simp only [List.map_cons, ih a' h3]
    · rw [h1, h2]; simp only [List.map_cons, ih a h]

/-- every step of a literal run starts where the previous one ended -/
theorem litRun_chain (ops : List BOp) : ∀ (a : ArrayBuf),
    (litRun a ops).map (·.pre) = ((a :: (litRun a ops).map (·.post)).take (litRun a ops).length) := by
  induction ops with
  | nil => intro a; rfl
  | cons op ops ih =>
    intro a
    simp only [litRun]
    cases lit a op with
    | ok a' => simp only [List.map_cons, List.length_cons, List.take_succ_cons]; rw [ih a']
    | oom a' => simp only [List.map_cons, List.length_cons, List.take_succ_cons]; rw [ih a']
    | panic s => rfl

/-- no step of a literal run from the empty buffer panics; the run has one step per operation and
    every state in it is well formed with capacity `N` -/
theorem no_panic_lit_run (N : Nat) (ops : List BOp) :
    (litRun (ArrayBuf.new N) ops).length = ops.length ∧
    ∀ st ∈ litRun (ArrayBuf.new N) ops,
      st.tag ≠ Tag.panic ∧ WF st.post ∧ st.post.N = N := by
  have hrun := litRun_eq_run ops (ArrayBuf.new N) (WF_new N)
  obtain ⟨_, _, h3, _, h5, _, _⟩ :=
    run_refines_from ops (ArrayBuf.new N) ⟨N, []⟩ (WF_new N) (N_new N).symm (abs_new N).symm
  constructor
  · rw [← h3, ← hrun, List.length_map]
  · intro st hst
    have hm : (st.tag, st.post) ∈ ArrayBuf.run (ArrayBuf.new N) ops := by
      rw [← hrun]; exact List.mem_map.2 ⟨st, hst, rfl⟩
    obtain ⟨g1, _, g3, g4⟩ := h5 _ hm
    rw [N_new] at g3 g4
    refine ⟨g1, ?_, g4⟩
    show st.post.numElements ≤ st.post.buffer.length
    rw [g4]; exact g3

/-! ### non-vacuity -/

-- a failing `extend_from_slice` and a failing `push`, with stale bytes behind `num_elements`
example : lit ⟨[1, 2, 9, 9], 2⟩ (.extend [5, 6, 7]) = .oom ⟨[1, 2, 9, 9], 2⟩ := by decide
example : lit ⟨[1, 2, 3], 3⟩ (.push 7) = .oom ⟨[1, 2, 3], 3⟩ := by decide
-- successful operations overwrite exactly the addressed bytes
example : lit ⟨[1, 2, 9, 9, 9], 2⟩ (.extend [5, 6]) = .ok ⟨[1, 2, 5, 6, 9], 4⟩ := by decide
example : lit ⟨[1, 2, 9], 2⟩ (.push 7) = .ok ⟨[1, 2, 7], 3⟩ := by decide
example : lit ⟨[1, 2, 9], 3⟩ (.truncate 1) = .ok ⟨[1, 2, 9], 1⟩ := by decide
-- the panic sites are real: an ill-formed state (`num_elements > N`) reaches util.rs:128
example : lit ⟨[1, 2], 3⟩ (.push 7) = .panic "util.rs:128 index out of bounds" := by decide
-- a run with two failing steps; the hypotheses of `oom_unchanged_run` are met twice
example : (litRun (ArrayBuf.new 3) [.extend [1, 2], .extend [3, 4], .push 5, .push 6, .clear]).map
    (fun st => (st.tag, st.post)) =
    [(.ok, ⟨[1, 2, 0], 2⟩), (.oom, ⟨[1, 2, 0], 2⟩), (.ok, ⟨[1, 2, 5], 3⟩), (.oom, ⟨[1, 2, 5], 3⟩),
     (.ok, ⟨[1, 2, 5], 0⟩)] := by decide
example : ArrayBufLit.fromIter 3 [1, 2, 3] = .ok ⟨[1, 2, 3], 3⟩ := by decide
example : ArrayBufLit.fromIter 3 [1, 2, 3, 4] = .panic "util.rs:117 unwrap on OutOfMemory" := by
  decide

/-! ### mutation sanity checks: the theorems are sensitive to the statement order -/

/-- MUTANT of `extend_from_slice`: copies the part of `other` that fits and only then reports
    `Err(OutOfMemory)`:
```
let fit = other.len().min(N - self.num_elements);
self.buffer[self.num_elements..][..fit].copy_from_slice(&other[..fit]);
if self.num_elements + other.len() > N { return Err(OutOfMemory); }
self.num_elements += other.len();
Ok(())
``` -/
def extendBad (self : ArrayBuf) (other : List UInt8) : LitRes :=
  let fit := min other.length (self.N - self.numElements)
  match ArrayBufLit.sliceFrom self.buffer self.numElements with
  | Option.none => .panic "range start index out of range"
  | some (front, view1) =>
  match ArrayBufLit.sliceTo view1 fit with
  | Option.none => .panic "range end index out of range"
  | some (view2, back) =>
  match ArrayBufLit.copyFromSlice view2 (other.take fit) with
  | Option.none => .panic "copy_from_slice length mismatch"
  | some view2' =>
    let self1 : ArrayBuf := { self with buffer := front ++ view2' ++ back }
    if self1.numElements + other.length > self1.N then
      .oom self1
    else
      .ok { self1 with numElements := self1.numElements + other.length }

/-- the mutant agrees with the real operation whenever the slice fits ... -/
example : extendBad ⟨[1, 2, 9, 9, 9], 2⟩ [5, 6] = lit ⟨[1, 2, 9, 9, 9], 2⟩ (.extend [5, 6]) := by
  decide

/-- ... and has the same tag when it does not fit, the same `num_elements`, even the same visible
    contents - but it has written behind `num_elements`: -/
example : extendBad ⟨[1, 2, 9, 9], 2⟩ [5, 6, 7] = .oom ⟨[1, 2, 5, 6], 2⟩ := by decide

/-- `oom_unchanged` is FALSE for the mutant -/
example : ¬ ∀ (a a' : ArrayBuf) (s : List UInt8), extendBad a s = .oom a' → a' = a := by
  intro h
  have h1 : extendBad ⟨[1, 2, 9, 9], 2⟩ [5, 6, 7] = .oom ⟨[1, 2, 5, 6], 2⟩ := by decide
  exact absurd (h _ _ _ h1) (by decide)

/-- MUTANT of `extend_from_slice`: the capacity check literally moved behind the copy
```
self.buffer[self.num_elements..][..other.len()].copy_from_slice(other);
if self.num_elements + other.len() > N { return Err(OutOfMemory); }
``` -/
def extendLate (self : ArrayBuf) (other : List UInt8) : LitRes :=
  match ArrayBufLit.sliceFrom self.buffer self.numElements with
  | Option.none => .panic "range start index out of range"
  | some (front, view1) =>
  match ArrayBufLit.sliceTo view1 other.length with
  | Option.none => .panic "range end index out of range"
  | some (view2, back) =>
  match ArrayBufLit.copyFromSlice view2 other with
  | Option.none => .panic "copy_from_slice length mismatch"
  | some view2' =>
    let self1 : ArrayBuf := { self with buffer := front ++ view2' ++ back }
    if self1.numElements + other.length > self1.N then
      .oom self1
    else
      .ok { self1 with numElements := self1.numElements + other.length }

/-- `no_panic_lit` / `lit_eq_model` are FALSE for this mutant: it panics where the real code
    returns `Err(OutOfMemory)`, on a well-formed buffer -/
example : WF ⟨[1, 2, 9, 9], 2⟩ ∧
    extendLate ⟨[1, 2, 9, 9], 2⟩ [5, 6, 7] = .panic "range end index out of range" ∧
    ArrayBuf.apply ⟨[1, 2, 9, 9], 2⟩ (.extend [5, 6, 7]) = .oom := by decide

/-- MUTANT of `push`: write and increment first, check afterwards
```
self.buffer[self.num_elements] = b;   // (index made total with `get_mut` so that it cannot panic)
self.num_elements += 1;
if self.num_elements > N { Err(OutOfMemory) } else { Ok(()) }
``` -/
def pushBad (self : ArrayBuf) (b : UInt8) : LitRes :=
  let self1 : ArrayBuf := { self with buffer := self.buffer.set self.numElements b }
  let self2 : ArrayBuf := { self1 with numElements := self1.numElements + 1 }
  if self2.numElements > self2.N then .oom self2 else .ok self2

/-- `oom_unchanged` is FALSE for this mutant, also for the visible length -/
example : pushBad ⟨[1, 2, 3], 3⟩ 7 = .oom ⟨[1, 2, 3], 4⟩ ∧
    (⟨[1, 2, 3], 4⟩ : ArrayBuf) ≠ ⟨[1, 2, 3], 3⟩ := by decide

end Sml.C18

/-
  C18 helper definitions and lemmas: `ArrayBuf<N>` (real representation, stale bytes, explicit
  panic sites) refines the ideal bounded byte vector `IdealVec`.

  Everything here lives in namespace `Sml.C18`; the property theorems themselves are in
  `Sml/Props/C18.lean`.
-/
import Sml.Model.Buf

namespace Sml.C18
open Sml

/-! ### Operations, abstraction, well-formedness -/

/-- One `Buffer` trait operation (util.rs:124-149). -/
inductive BOp where
  | push (b : UInt8)
  | extend (s : List UInt8)
  | truncate (k : Nat)
  | clear
  deriving Repr, DecidableEq

/-- Apply one operation to the real `ArrayBuf`.  `truncate` / `clear` are infallible in Rust. -/
def ArrayBuf.apply (a : ArrayBuf) : BOp → BufRes ArrayBuf
  | .push b => a.push b
  | .extend s => a.extendFromSlice s
  | .truncate k => .ok (a.truncate k)
  | .clear => .ok a.clear

/-- Apply one operation to the ideal vector; `none` = `Err(OutOfMemory)`. -/
def IdealVec.apply (v : IdealVec) : BOp → Option IdealVec
  | .push b => v.push b
  | .extend s => v.extend s
  | .truncate k => some (v.truncate k)
  | .clear => some v.clear

/-- Apply one operation to the abstract `Buf`; `none` = `Err(OutOfMemory)`. -/
def Buf.apply (b : Buf) : BOp → Option Buf
  | .push x => b.push x
  | .extend s => b.extend s
  | .truncate k => some (b.truncate k)
  | .clear => some b.clear

/-- The visible contents of an `ArrayBuf`: the first `numElements` bytes of the backing array. -/
def abs (a : ArrayBuf) : List UInt8 := a.buffer.take a.numElements

/-- Representation invariant: `num_elements ≤ N`. -/
def WF (a : ArrayBuf) : Prop := a.numElements ≤ a.buffer.length

instance (a : ArrayBuf) : Decidable (WF a) := by unfold WF; infer_instance

/-! ### Runs over operation sequences -/

/-- Result tag of one operation. -/
inductive Tag where
  | ok
  | oom
  | panic
  deriving Repr, DecidableEq

/-- Run a sequence of operations on the real `ArrayBuf`.  For each operation the result tag and the
    state after it are recorded.  On `oom` the state is kept (Rust returns `Err` without touching
    `self`); on a panic the run stops. -/
def ArrayBuf.run (a : ArrayBuf) : List BOp → List (Tag × ArrayBuf)
  | [] => []
  | op :: ops =>
    match ArrayBuf.apply a op with
    | .ok a' => (.ok, a') :: ArrayBuf.run a' ops
    | .oom => (.oom, a) :: ArrayBuf.run a ops
    | .panic _ => [(.panic, a)]

/-- Final state of `ArrayBuf.run`. -/
def ArrayBuf.final (a : ArrayBuf) : List BOp → ArrayBuf
  | [] => a
  | op :: ops =>
    match ArrayBuf.apply a op with
    | .ok a' => ArrayBuf.final a' ops
    | .oom => ArrayBuf.final a ops
    | .panic _ => a

/-- Run a sequence of operations on the ideal vector. -/
def IdealVec.run (v : IdealVec) : List BOp → List (Tag × IdealVec)
  | [] => []
  | op :: ops =>
    match IdealVec.apply v op with
    | some v' => (.ok, v') :: IdealVec.run v' ops
    | none => (.oom, v) :: IdealVec.run v ops

/-- Final state of `IdealVec.run`. -/
def IdealVec.final (v : IdealVec) : List BOp → IdealVec
  | [] => v
  | op :: ops =>
    match IdealVec.apply v op with
    | some v' => IdealVec.final v' ops
    | none => IdealVec.final v ops

/-- Run a sequence of operations on the abstract `Buf`. -/
def Buf.run (b : Buf) : List BOp → List (Tag × Buf)
  | [] => []
  | op :: ops =>
    match Buf.apply b op with
    | some b' => (.ok, b') :: Buf.run b' ops
    | none => (.oom, b) :: Buf.run b ops

/-! ### `PartialEq` and `Debug` -/

/-- `PartialEq::eq` (util.rs:99-103): `**self == **other`, both derefs may panic. -/
def ArrayBuf.eqv (a b : ArrayBuf) : BufRes Bool :=
  match a.deref with
  | .ok x =>
    match b.deref with
    | .ok y => .ok (decide (x = y))
    | .oom => .oom
    | .panic s => .panic s
  | .oom => .oom
  | .panic s => .panic s

/-- `Debug::fmt` (util.rs:93-97) formats `**self`, i.e. a function of the deref result only. -/
def ArrayBuf.debugRepr (a : ArrayBuf) : BufRes (List UInt8) := a.deref

/-! ### List facts -/

theorem take_set_succ (l : List UInt8) (n : Nat) (b : UInt8) (h : n < l.length) :
    (l.set n b).take (n + 1) = l.take n ++ [b] := by
  rw [List.take_succ_eq_append_getElem (by simpa using h)]
  simp [List.take_set_of_le]

theorem take_splice (l s : List UInt8) (n : Nat) (h : n ≤ l.length) :
    (l.take n ++ s ++ l.drop (n + s.length)).take (n + s.length) = l.take n ++ s := by
  apply List.take_left'
  simp; omega

theorem length_splice (l s : List UInt8) (n : Nat) (h : n + s.length ≤ l.length) :
    (l.take n ++ s ++ l.drop (n + s.length)).length = l.length := by
  simp; omega

/-! ### Basic facts about `abs` / `WF` -/

theorem abs_length {a : ArrayBuf} (h : WF a) : (abs a).length = a.numElements := by
  unfold abs WF at *; simp; omega

theorem deref_of_WF {a : ArrayBuf} (h : WF a) : a.deref = .ok (abs a) := by
  unfold ArrayBuf.deref abs; unfold WF at h; simp [h]

theorem WF_new (n : Nat) : WF (ArrayBuf.new n) := by simp [WF, ArrayBuf.new]
theorem N_new (n : Nat) : (ArrayBuf.new n).N = n := by simp [ArrayBuf.N, ArrayBuf.new]
theorem abs_new (n : Nat) : abs (ArrayBuf.new n) = [] := by simp [abs, ArrayBuf.new]

/-! ### Single operations -/

theorem push_ok {a : ArrayBuf} (b : UInt8) (_h : WF a) (hlt : a.numElements < a.N) :
    ∃ a', a.push b = .ok a' ∧ WF a' ∧ a'.N = a.N ∧ abs a' = abs a ++ [b] := by
  unfold WF ArrayBuf.N at *
  refine ⟨{ buffer := a.buffer.set a.numElements b, numElements := a.numElements + 1 }, ?_, ?_, ?_, ?_⟩
  · unfold ArrayBuf.push ArrayBuf.N
    rw [if_neg (by omega), if_pos hlt]
  · simp; omega
  · simp
  · exact take_set_succ _ _ _ hlt

theorem push_oom {a : ArrayBuf} (b : UInt8) (h : WF a) (hge : ¬ a.numElements < a.N) :
    a.push b = .oom := by
  unfold WF ArrayBuf.N at *
  unfold ArrayBuf.push ArrayBuf.N
  rw [if_pos (by omega)]

theorem extend_ok {a : ArrayBuf} (s : List UInt8) (h : WF a)
    (hle : a.numElements + s.length ≤ a.N) :
    ∃ a', a.extendFromSlice s = .ok a' ∧ WF a' ∧ a'.N = a.N ∧ abs a' = abs a ++ s := by
  unfold WF ArrayBuf.N at *
  refine ⟨{ buffer := a.buffer.take a.numElements ++ s ++ a.buffer.drop (a.numElements + s.length),
            numElements := a.numElements + s.length }, ?_, ?_, ?_, ?_⟩
  · unfold ArrayBuf.extendFromSlice ArrayBuf.N
    rw [if_neg (by omega), if_pos (by omega)]
  · show _ ≤ (_ : List UInt8).length
    rw [length_splice _ _ _ hle]; exact hle
  · exact length_splice _ _ _ hle
  · exact take_splice _ _ _ h

theorem extend_oom {a : ArrayBuf} (s : List UInt8) (hgt : ¬ a.numElements + s.length ≤ a.N) :
    a.extendFromSlice s = .oom := by
  unfold ArrayBuf.extendFromSlice
  rw [if_pos (by omega)]

theorem truncate_ok {a : ArrayBuf} (k : Nat) (h : WF a) :
    WF (a.truncate k) ∧ (a.truncate k).N = a.N ∧ abs (a.truncate k) = (abs a).take k := by
  unfold WF ArrayBuf.N abs ArrayBuf.truncate at *
  refine ⟨?_, rfl, ?_⟩
  · simp; omega
  · simp [List.take_take, Nat.min_comm]

theorem clear_ok {a : ArrayBuf} : WF a.clear ∧ a.clear.N = a.N ∧ abs a.clear = [] := by
  simp [WF, ArrayBuf.N, abs, ArrayBuf.clear]

/-! ### Step refinement -/

theorem step_some {a : ArrayBuf} {op : BOp} (h : WF a) {v' : IdealVec}
    (hv : IdealVec.apply ⟨a.N, abs a⟩ op = some v') :
    ∃ a', ArrayBuf.apply a op = .ok a' ∧ WF a' ∧ a'.N = a.N ∧ abs a' = v'.data ∧ v'.cap = a.N := by
  cases op with
  | push b =>
    simp only [IdealVec.apply, IdealVec.push, abs_length h] at hv
    split at hv
    · rename_i hc
      cases hv
      obtain ⟨a', h1, h2, h3, h4⟩ := push_ok b h (by omega : a.numElements < a.N)
      exact ⟨a', h1, h2, h3, h4, rfl⟩
    · cases hv
  | extend s =>
    simp only [IdealVec.apply, IdealVec.extend, abs_length h] at hv
    split at hv
    · rename_i hc
      cases hv
      obtain ⟨a', h1, h2, h3, h4⟩ := extend_ok s h hc
      exact ⟨a', h1, h2, h3, h4, rfl⟩
    · cases hv
  | truncate k =>
    simp only [IdealVec.apply, IdealVec.truncate] at hv
    cases hv
    obtain ⟨h1, h2, h3⟩ := truncate_ok k h
    exact ⟨_, rfl, h1, h2, h3, rfl⟩
  | clear =>
    simp only [IdealVec.apply, IdealVec.clear] at hv
    cases hv
    obtain ⟨h1, h2, h3⟩ := clear_ok (a := a)
    exact ⟨_, rfl, h1, h2, h3, rfl⟩

theorem step_none {a : ArrayBuf} {op : BOp} (h : WF a)
    (hv : IdealVec.apply ⟨a.N, abs a⟩ op = none) : ArrayBuf.apply a op = .oom := by
  cases op with
  | push b =>
    simp only [IdealVec.apply, IdealVec.push, abs_length h] at hv
    split at hv
    · cases hv
    · exact push_oom b h (by omega)
  | extend s =>
    simp only [IdealVec.apply, IdealVec.extend, abs_length h] at hv
    split at hv
    · cases hv
    · rename_i hc; exact extend_oom s hc
  | truncate k => simp [IdealVec.apply] at hv
  | clear => simp [IdealVec.apply] at hv

/-! ### Run refinement, generalised over the start state -/

/-- Everything C18 says about a run, for an arbitrary well-formed start state `a` and the ideal
    vector `v` with the same capacity and contents. -/
theorem run_refines_from (ops : List BOp) :
    ∀ (a : ArrayBuf) (v : IdealVec), WF a → v.cap = a.N → v.data = abs a →
      (ArrayBuf.run a ops).map (·.1) = (IdealVec.run v ops).map (·.1) ∧
      (ArrayBuf.run a ops).map (fun p => abs p.2) = (IdealVec.run v ops).map (fun p => p.2.data) ∧
      (ArrayBuf.run a ops).length = ops.length ∧
      abs (ArrayBuf.final a ops) = (IdealVec.final v ops).data ∧
      (∀ p ∈ ArrayBuf.run a ops,
        p.1 ≠ Tag.panic ∧ p.2.deref = .ok (abs p.2) ∧
        p.2.numElements ≤ a.N ∧ p.2.buffer.length = a.N) ∧
      WF (ArrayBuf.final a ops) ∧ (ArrayBuf.final a ops).N = a.N := by
  induction ops with
  | nil =>
    intro a v h _ hd
    simp [ArrayBuf.run, IdealVec.run, ArrayBuf.final, IdealVec.final, hd, h]
  | cons op ops ih =>
    intro a v h hc hd
    have hv : v = ⟨a.N, abs a⟩ := by cases v; simp_all
    subst hv
    cases hap : IdealVec.apply ⟨a.N, abs a⟩ op with
    | some v' =>
      obtain ⟨a', h1, h2, h3, h4, h5⟩ := step_some h hap
      obtain ⟨i1, i2, i3, i4, i5, i6, i7⟩ := ih a' v' h2 (by rw [h5, h3]) h4.symm
      simp only [ArrayBuf.run, IdealVec.run, ArrayBuf.final, IdealVec.final, hap, h1]
      refine ⟨by simp [i1], by simp [i2, h4], by simp [i3], i4, ?_, i6, by rw [i7, h3]⟩
      intro p hp
      rcases List.mem_cons.1 hp with rfl | hp
      · refine ⟨by simp, deref_of_WF h2, ?_, h3⟩
        show a'.numElements ≤ a.N
        have := h2; unfold WF at this; unfold ArrayBuf.N at h3 ⊢; omega
      · have := i5 p hp; rw [h3] at this; exact this
    | none =>
      have h1 := step_none h hap
      obtain ⟨i1, i2, i3, i4, i5, i6, i7⟩ := ih a ⟨a.N, abs a⟩ h rfl rfl
      simp only [ArrayBuf.run, IdealVec.run, ArrayBuf.final, IdealVec.final, hap, h1]
      refine ⟨by simp [i1], by simp [i2], by simp [i3], i4, ?_, i6, i7⟩
      intro p hp
      rcases List.mem_cons.1 hp with rfl | hp
      · exact ⟨by simp, deref_of_WF h, h, rfl⟩
      · exact i5 p hp

/-! ### `FromIterator` -/

theorem fromIter_go_ok (xs : List UInt8) :
    ∀ a : ArrayBuf, WF a → a.numElements + xs.length ≤ a.N →
      ∃ a', ArrayBuf.fromIter.go a xs = .ok a' ∧ WF a' ∧ a'.N = a.N ∧ abs a' = abs a ++ xs := by
  induction xs with
  | nil => intro a h _; exact ⟨a, rfl, h, rfl, by simp⟩
  | cons x xs ih =>
    intro a h hle
    simp only [List.length_cons] at hle
    obtain ⟨a1, h1, h2, h3, h4⟩ := push_ok x h (by omega : a.numElements < a.N)
    have hn : a1.numElements = a.numElements + 1 := by
      rw [← abs_length h2, h4, List.length_append, abs_length h]; rfl
    obtain ⟨a', g1, g2, g3, g4⟩ := ih a1 h2 (by rw [h3, hn]; omega)
    refine ⟨a', ?_, g2, by rw [g3, h3], by rw [g4, h4]; simp⟩
    simp only [ArrayBuf.fromIter.go, h1]; exact g1

theorem fromIter_go_overflow (xs : List UInt8) :
    ∀ a : ArrayBuf, WF a → a.N < a.numElements + xs.length →
      ∃ s, ArrayBuf.fromIter.go a xs = .panic s := by
  induction xs with
  | nil => intro a h hlt; unfold WF ArrayBuf.N at *; simp at hlt; omega
  | cons x xs ih =>
    intro a h hlt
    simp only [List.length_cons] at hlt
    by_cases hc : a.numElements < a.N
    · obtain ⟨a1, h1, h2, h3, h4⟩ := push_ok x h hc
      have hn : a1.numElements = a.numElements + 1 := by
        rw [← abs_length h2, h4, List.length_append, abs_length h]; rfl
      obtain ⟨s, hs⟩ := ih a1 h2 (by rw [h3, hn]; omega)
      exact ⟨s, by simp only [ArrayBuf.fromIter.go, h1]; exact hs⟩
    · refine ⟨"util.rs:117 unwrap on OutOfMemory", ?_⟩
      simp only [ArrayBuf.fromIter.go, push_oom x h hc]

/-! ### Equality and Debug -/

theorem eqv_of_WF {a b : ArrayBuf} (ha : WF a) (hb : WF b) :
    ArrayBuf.eqv a b = .ok (decide (abs a = abs b)) := by
  simp only [ArrayBuf.eqv, deref_of_WF ha, deref_of_WF hb]

/-! ### The abstract `Buf` -/

theorem buf_len (b : Buf) : b.data.length = b.rdata.length := by simp [Buf.data]

theorem buf_push_some (b : Buf) (N : Nat) (hc : b.cap = some N) (x : UInt8) :
    (b.push x).map Buf.data = (IdealVec.push ⟨N, b.data⟩ x).map IdealVec.data := by
  simp only [Buf.push, Buf.isFull, hc, IdealVec.push, buf_len]
  by_cases h : b.rdata.length + 1 ≤ N
  · rw [if_pos h, if_neg (by simp; omega)]; simp [Buf.data]
  · rw [if_neg h, if_pos (by simp; omega)]; rfl

theorem buf_extend_some (b : Buf) (N : Nat) (hc : b.cap = some N) (s : List UInt8) :
    (b.extend s).map Buf.data = (IdealVec.extend ⟨N, b.data⟩ s).map IdealVec.data := by
  simp only [Buf.extend, Buf.fits, hc, IdealVec.extend, buf_len]
  by_cases h : b.rdata.length + s.length ≤ N
  · rw [if_pos h, if_pos (by simpa using h)]; simp [Buf.data]
  · rw [if_neg h, if_neg (by simpa using h)]; rfl

theorem buf_truncate (b : Buf) (N k : Nat) :
    (b.truncate k).data = (IdealVec.truncate ⟨N, b.data⟩ k).data := by
  simp [Buf.truncate, Buf.data, IdealVec.truncate, List.take_reverse]

theorem buf_clear (b : Buf) (N : Nat) : b.clear.data = (IdealVec.clear ⟨N, b.data⟩).data := by
  simp [Buf.clear, Buf.data, IdealVec.clear]

/-- One step on a bounded `Buf` agrees with the ideal vector and preserves cap and bound. -/
theorem buf_step (b : Buf) (N : Nat) (hc : b.cap = some N) (hl : b.data.length ≤ N) (op : BOp) :
    (Buf.apply b op).map Buf.data = (IdealVec.apply ⟨N, b.data⟩ op).map IdealVec.data ∧
    ∀ b', Buf.apply b op = some b' → b'.cap = some N ∧ b'.data.length ≤ N := by
  rw [buf_len] at hl
  cases op with
  | push x =>
    refine ⟨buf_push_some b N hc x, ?_⟩
    intro b' hb
    simp only [Buf.apply, Buf.push, Buf.isFull, hc] at hb
    split at hb
    · cases hb
    · rename_i hf; cases hb; simp at hf; simp [buf_len]; omega
  | extend s =>
    refine ⟨buf_extend_some b N hc s, ?_⟩
    intro b' hb
    simp only [Buf.apply, Buf.extend, Buf.fits, hc] at hb
    split at hb
    · rename_i hf; cases hb; simp at hf; simp [buf_len]; omega
    · cases hb
  | truncate k =>
    refine ⟨by simp only [Buf.apply, IdealVec.apply, Option.map_some, buf_truncate b N k], ?_⟩
    intro b' hb
    simp only [Buf.apply] at hb
    cases hb; simp [Buf.truncate, buf_len, hc]; omega
  | clear =>
    refine ⟨by simp only [Buf.apply, IdealVec.apply, Option.map_some, buf_clear b N], ?_⟩
    intro b' hb
    simp only [Buf.apply] at hb
    cases hb; simp [Buf.clear, buf_len, hc]

theorem buf_unbounded (b : Buf) (hc : b.cap = none) :
    (∀ x, ∃ b', b.push x = some b' ∧ b'.cap = none ∧ b'.data = b.data ++ [x]) ∧
    (∀ s, ∃ b', b.extend s = some b' ∧ b'.cap = none ∧ b'.data = b.data ++ s) := by
  constructor
  · intro x
    exact ⟨{ b with rdata := x :: b.rdata }, by simp [Buf.push, Buf.isFull, hc], hc, by simp [Buf.data]⟩
  · intro s
    exact ⟨{ b with rdata := s.reverse ++ b.rdata }, by simp [Buf.extend, Buf.fits, hc], hc,
      by simp [Buf.data]⟩

/-- Run-level refinement for the abstract bounded `Buf`. -/
theorem buf_run_from (ops : List BOp) :
    ∀ (b : Buf) (N : Nat), b.cap = some N → b.data.length ≤ N →
      (Buf.run b ops).map (fun p => (p.1, p.2.data)) =
        (IdealVec.run ⟨N, b.data⟩ ops).map (fun p => (p.1, p.2.data)) := by
  induction ops with
  | nil => intro b N _ _; rfl
  | cons op ops ih =>
    intro b N hc hl
    obtain ⟨h1, h2⟩ := buf_step b N hc hl op
    have hcap : ∀ v', IdealVec.apply ⟨N, b.data⟩ op = some v' → v'.cap = N := by
      intro v' hv
      cases op <;> simp only [IdealVec.apply, IdealVec.push, IdealVec.extend] at hv
      · split at hv <;> cases hv; rfl
      · split at hv <;> cases hv; rfl
      · cases hv; rfl
      · cases hv; rfl
    cases hb : Buf.apply b op with
    | some b' =>
      cases hv : IdealVec.apply ⟨N, b.data⟩ op with
      | some v' =>
        rw [hb, hv] at h1
        simp only [Option.map_some, Option.some.injEq] at h1
        obtain ⟨c1, c2⟩ := h2 b' hb
        have hv' : v' = ⟨N, b'.data⟩ := by
          have := hcap v' hv; cases v'; simp_all
        simp only [Buf.run, IdealVec.run, hb, hv, List.map_cons, h1]
        rw [ih b' N c1 c2, hv']
      | none => rw [hb, hv] at h1; cases h1
    | none =>
      cases hv : IdealVec.apply ⟨N, b.data⟩ op with
      | some v' => rw [hb, hv] at h1; cases h1
      | none =>
        simp only [Buf.run, IdealVec.run, hb, hv, List.map_cons]
        rw [ih b N hc hl]

end Sml.C18

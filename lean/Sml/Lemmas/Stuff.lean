import Sml.Spec.Frame
import Sml.Model.Decode
/-
  General lemmas about the wire-format specification (`Sml/Spec/Frame.lean`):
  escape stuffing `Spec.stuffFrom` / `Spec.stuff`, the run counter `Spec.ctr`, the pad count
  `Spec.padLen`, and a few facts about `crcUpdate` / `START`.

  Nothing here mentions an encoder or a decoder; the lemmas are meant to be reused.
-/
namespace Sml.Spec

/-! ### unfolding lemmas -/

@[simp] theorem stuffFrom_nil (n : Nat) : stuffFrom n [] = [] := rfl

@[simp] theorem ctr_nil (n : Nat) : ctr n [] = n := rfl

theorem stuffFrom_cons_1b_three (bs : List UInt8) :
    stuffFrom 3 (0x1b :: bs) = 0x1b :: (ESC ++ stuffFrom 0 bs) := by
  simp [stuffFrom]

theorem stuffFrom_cons_1b_of_ne_three {n : Nat} (h : n ≠ 3) (bs : List UInt8) :
    stuffFrom n (0x1b :: bs) = 0x1b :: stuffFrom (n + 1) bs := by
  simp [stuffFrom, h]

theorem stuffFrom_cons_of_ne {b : UInt8} (h : b ≠ 0x1b) (n : Nat) (bs : List UInt8) :
    stuffFrom n (b :: bs) = b :: stuffFrom 0 bs := by
  simp [stuffFrom, h]

theorem ctr_cons_1b_three (bs : List UInt8) : ctr 3 (0x1b :: bs) = ctr 0 bs := by
  simp [ctr]

theorem ctr_cons_1b_of_ne_three {n : Nat} (h : n ≠ 3) (bs : List UInt8) :
    ctr n (0x1b :: bs) = ctr (n + 1) bs := by
  simp [ctr, h]

theorem ctr_cons_of_ne {b : UInt8} (h : b ≠ 0x1b) (n : Nat) (bs : List UInt8) :
    ctr n (b :: bs) = ctr 0 bs := by
  simp [ctr, h]

theorem length_ESC : ESC.length = 4 := rfl

theorem length_START : START.length = 8 := rfl

/-! ### the run counter -/

/-- the run counter stays in `0..3` -/
theorem ctr_lt_4 {n : Nat} (h : n < 4) (q : List UInt8) : ctr n q < 4 := by
  induction q generalizing n with
  | nil => simpa using h
  | cons b bs ih =>
    unfold ctr
    split
    · split
      · exact ih (by omega)
      · exact ih (by omega)
    · exact ih (by omega)

theorem ctr_append (n : Nat) (a b : List UInt8) : ctr n (a ++ b) = ctr (ctr n a) b := by
  induction a generalizing n with
  | nil => rfl
  | cons x xs ih =>
    simp only [List.cons_append, ctr]
    split
    · split <;> exact ih _
    · exact ih _

/-- if the next byte is not `0x1b` the run counter is irrelevant -/
theorem ctr_of_head_ne (n m : Nat) {q : List UInt8} (h : q.head? ≠ some 0x1b) (hq : q ≠ []) :
    ctr n q = ctr m q := by
  cases q with
  | nil => exact absurd rfl hq
  | cons b bs =>
    have hb : b ≠ 0x1b := by simpa using h
    rw [ctr_cons_of_ne hb, ctr_cons_of_ne hb]

/-! ### stuffing -/

/-- stuffing is compositional; the run counter carries the state across the cut -/
theorem stuffFrom_append (n : Nat) (a b : List UInt8) :
    stuffFrom n (a ++ b) = stuffFrom n a ++ stuffFrom (ctr n a) b := by
  induction a generalizing n with
  | nil => rfl
  | cons x xs ih =>
    simp only [List.cons_append, stuffFrom, ctr]
    split
    · split
      · simp [ih]
      · simp [ih]
    · simp [ih]

/-- every inserted escape is four bytes long, so stuffing preserves the length modulo four -/
theorem length_stuffFrom_mod4 (n : Nat) (q : List UInt8) :
    (stuffFrom n q).length % 4 = q.length % 4 := by
  induction q generalizing n with
  | nil => rfl
  | cons b bs ih =>
    unfold stuffFrom
    split
    · split
      · have := ih 0
        simp only [List.length_cons, List.length_append, length_ESC]
        omega
      · have := ih (n + 1)
        simp only [List.length_cons]
        omega
    · have := ih 0
      simp only [List.length_cons]
      omega

theorem length_stuff_mod4 (q : List UInt8) : (stuff q).length % 4 = q.length % 4 :=
  length_stuffFrom_mod4 0 q

/-- stuffing never removes bytes -/
theorem length_le_length_stuffFrom (n : Nat) (q : List UInt8) :
    q.length ≤ (stuffFrom n q).length := by
  induction q generalizing n with
  | nil => simp
  | cons b bs ih =>
    unfold stuffFrom
    split
    · split
      · have := ih 0
        simp only [List.length_cons, List.length_append, length_ESC]
        omega
      · have := ih (n + 1)
        simp only [List.length_cons]
        omega
    · have := ih 0
      simp only [List.length_cons]
      omega

/-- if the next byte is not `0x1b` the run counter is irrelevant -/
theorem stuffFrom_of_head_ne (n : Nat) {q : List UInt8} (h : q.head? ≠ some 0x1b) :
    stuffFrom n q = stuffFrom 0 q := by
  cases q with
  | nil => rfl
  | cons b bs =>
    have hb : b ≠ 0x1b := by simpa using h
    rw [stuffFrom_cons_of_ne hb, stuffFrom_cons_of_ne hb]

/-- a payload without `0x1b` bytes is copied unchanged -/
theorem stuffFrom_of_no_1b (n : Nat) {q : List UInt8} (h : ∀ b ∈ q, b ≠ 0x1b) :
    stuffFrom n q = q := by
  induction q generalizing n with
  | nil => rfl
  | cons b bs ih =>
    have hb : b ≠ 0x1b := h b (by simp)
    rw [stuffFrom_cons_of_ne hb, ih 0 (fun x hx => h x (by simp [hx]))]

/-- ... and resets the run counter (if it is not empty) -/
theorem ctr_of_no_1b (n : Nat) {q : List UInt8} (h : ∀ b ∈ q, b ≠ 0x1b) (hq : q ≠ []) :
    ctr n q = 0 := by
  induction q generalizing n with
  | nil => exact absurd rfl hq
  | cons b bs ih =>
    have hb : b ≠ 0x1b := h b (by simp)
    rw [ctr_cons_of_ne hb]
    cases bs with
    | nil => rfl
    | cons c cs => exact ih 0 (fun x hx => h x (by simp [hx])) (by simp)

/-- zero bytes are copied unchanged -/
theorem stuffFrom_replicate_zero (n k : Nat) :
    stuffFrom n (List.replicate k 0) = List.replicate k 0 :=
  stuffFrom_of_no_1b n (by
    intro b hb
    rw [List.eq_of_mem_replicate hb]
    decide)

/-- zero bytes reset the run counter -/
theorem ctr_replicate_zero (n k : Nat) (hk : 0 < k) : ctr n (List.replicate k 0) = 0 :=
  ctr_of_no_1b n (by
    intro b hb
    rw [List.eq_of_mem_replicate hb]
    decide) (by
    cases k with
    | zero => omega
    | succ k => simp [List.replicate_succ])

/-- a run of `r` bytes `0x1b`, entered with run counter `n < 4`, gets one escape after every
fourth byte of the (extended) run -/
theorem stuffFrom_replicate_1b {n : Nat} (hn : n < 4) (r : Nat) :
    stuffFrom n (List.replicate r 0x1b) = List.replicate (r + 4 * ((n + r) / 4)) 0x1b := by
  induction r generalizing n with
  | zero =>
    have : n / 4 = 0 := by omega
    simp [this]
  | succ r ih =>
    rw [List.replicate_succ]
    by_cases h3 : n = 3
    · subst h3
      rw [stuffFrom_cons_1b_three, ih (by omega)]
      have : r + 1 + 4 * ((3 + (r + 1)) / 4) = (4 + (r + 4 * ((0 + r) / 4))) + 1 := by omega
      have e : ESC = List.replicate 4 0x1b := rfl
      rw [this, List.replicate_succ, e, List.replicate_append_replicate]
    · rw [stuffFrom_cons_1b_of_ne_three h3, ih (by omega)]
      have : r + 1 + 4 * ((n + (r + 1)) / 4) = (r + 4 * ((n + 1 + r) / 4)) + 1 := by
        have : n + (r + 1) = n + 1 + r := by omega
        rw [this]; omega
      rw [this, List.replicate_succ]

theorem ctr_replicate_1b {n : Nat} (hn : n < 4) (r : Nat) :
    ctr n (List.replicate r 0x1b) = (n + r) % 4 := by
  induction r generalizing n with
  | zero => simp; omega
  | succ r ih =>
    rw [List.replicate_succ]
    by_cases h3 : n = 3
    · subst h3
      rw [ctr_cons_1b_three, ih (by omega)]
      omega
    · rw [ctr_cons_1b_of_ne_three h3, ih (by omega)]
      have : n + (r + 1) = n + 1 + r := by omega
      rw [this]

/-! ### `stuff` -/

@[simp] theorem stuff_nil : stuff [] = [] := rfl

theorem stuff_append (a b : List UInt8) : stuff (a ++ b) = stuff a ++ stuffFrom (ctr 0 a) b :=
  stuffFrom_append 0 a b

theorem stuff_cons_of_ne {b : UInt8} (h : b ≠ 0x1b) (bs : List UInt8) :
    stuff (b :: bs) = b :: stuff bs :=
  stuffFrom_cons_of_ne h 0 bs

/-! ### padding -/

theorem padLen_lt_4 (n : Nat) : padLen n < 4 := by
  unfold padLen; omega

theorem padLen_spec (n : Nat) : (n + padLen n) % 4 = 0 := by
  unfold padLen; omega

theorem padLen_congr {n m : Nat} (h : n % 4 = m % 4) : padLen n = padLen m := by
  unfold padLen; rw [h]

/-- `padLen` is the *least* number of bytes reaching a multiple of four -/
theorem padLen_le {n k : Nat} (h : (n + k) % 4 = 0) : padLen n ≤ k := by
  unfold padLen; omega

theorem padLen_add_mul4 (n k : Nat) : padLen (n + 4 * k) = padLen n := by
  unfold padLen
  have : (n + 4 * k) % 4 = n % 4 := by omega
  rw [this]

/-- the pad count of a frame depends only on the payload length -/
theorem padLen_START_stuff (p : List UInt8) :
    padLen (START ++ stuff p).length = padLen p.length := by
  apply padLen_congr
  have := length_stuff_mod4 p
  simp only [List.length_append, length_START]
  omega

end Sml.Spec

namespace Sml

/-! ### `START` and the CRC -/

theorem START_eq_spec : Sml.START = Spec.START := rfl

theorem crcUpdate_crcInit_START_append (x : List UInt8) :
    crcUpdate crcInit (Spec.START ++ x) = crcUpdate startCrc x := by
  rw [crcUpdate_append]; rfl

theorem crcUpdate_append3 (c : UInt16) (x y z : List UInt8) :
    crcUpdate (crcUpdate (crcUpdate c x) y) z = crcUpdate c (x ++ y ++ z) := by
  rw [crcUpdate_append, crcUpdate_append]

theorem crcUpdate_singleton (c : UInt16) (b : UInt8) : crcUpdate c [b] = crcByte c b := rfl

theorem length_le16 (x : UInt16) : (le16 x).length = 2 := rfl

end Sml

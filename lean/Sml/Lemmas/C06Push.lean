import Sml.Lemmas.C06
/-
  C06, the `Vec::push` calls of the list loop (complete.rs:245-254):

  ```
  fn parse_with_tlf(mut input: &'i [u8], tlf: &TypeLengthField) -> ResTy<'i, Self> {
      let mut v = Vec::with_capacity((tlf.len as usize).min(input.len()));
      for _ in 0..tlf.len {
          let (new_input, x) = ListEntry::parse(input)?;
          v.push(x);
          input = new_input;
      }
      Ok((input, v))
  }
  ```

  The ghost model (`Model/AllocGhost.lean`) records the `with_capacity` request, and
  `Sml.C06.entries_bound` bounds the number of entries of a list that parses SUCCESSFULLY.  Nothing
  there speaks about the `v.push(x)` calls executed before a FAILING `ListEntry::parse`.  Here the
  loop is transcribed with its accumulator `v` (`listLoop`): the exit state records the vector at
  the moment the function returns (in the error case: the vector that is dropped) and whether some
  `v.push` found `v.len() ≥ cap`, i.e. could have re-allocated.

  * `entry_consumes`      a parsed list entry consumed at least 8 bytes;
  * `listLoop_res`        the transcribed loop returns exactly what `parseEntries` returns;
  * `listLoop_error_char` characterisation of a failing `parseEntries` by the model itself;
  * `pushes_le_request`   success or failure: #pushes ≤ `listCapRequest tlf.len input`;
  * `no_regrow`           no push of the loop finds the vector at (or above) the requested capacity.
-/
namespace Sml.C06
open Sml

/-! ### a list entry consumes at least 8 bytes -/

/-- the seven fields of a list entry (each at least one byte) -/
theorem parseListEntryWith_consumes (tlf : Tlf) (i : Bytes) (v : ListEntry) (r : Bytes)
    (h : parseListEntryWith i tlf = .ok (v, r)) : Consumes 7 i r := by
  simp only [parseListEntryWith] at h
  have hc := Consumes.refl i
  adv_ok_step adv_parseOctet
  adv_ok_step (adv_parseOpt adv_parseStatus)
  adv_ok_step (adv_parseOpt adv_parseTime)
  adv_ok_step (adv_parseOpt (adv_parseInt false 1))
  adv_ok_step (adv_parseOpt (adv_parseInt true 1))
  adv_ok_step adv_parseValue
  adv_ok_step (adv_parseOpt adv_parseOctet)
  simp only [Except.ok.injEq, Prod.mk.injEq] at h
  obtain ⟨_, rfl⟩ := h
  exact hc.mono (by omega)

/-- type-length field (≥ 1 byte) + seven fields -/
theorem parseListEntry_consumes (i : Bytes) (v : ListEntry) (r : Bytes)
    (h : parseListEntry i = .ok (v, r)) : Consumes 8 i r := by
  unfold parseListEntry parseViaTlf at h
  have hc := Consumes.refl i
  adv_ok_step adv_parseTlf
  split at h
  · cases h
  · exact (hc.trans (parseListEntryWith_consumes _ _ _ _ h)).mono (by omega)

/-- A successfully parsed list entry consumes at least 8 bytes of the input (in particular ≥ 1). -/
theorem entry_consumes (input : Bytes) (x : ListEntry) (rest : Bytes)
    (h : parseListEntry input = .ok (x, rest)) : rest.length + 8 ≤ input.length :=
  (parseListEntry_consumes input x rest h).length_le

theorem entry_consumes_one (input : Bytes) (x : ListEntry) (rest : Bytes)
    (h : parseListEntry input = .ok (x, rest)) : rest.length + 1 ≤ input.length := by
  have := entry_consumes input x rest h; omega

/-! ### the loop with its accumulator -/

/-- state of `List::parse_with_tlf` when it returns -/
structure LoopExit where
  /-- the value returned -/
  res : PRes (List ListEntry)
  /-- the vector `v` at that moment (returned inside `Ok`, dropped on `Err`); it started empty and
      only `push` modifies it, so `v.length` is the number of `v.push(x)` calls executed -/
  v : List ListEntry
  /-- some `v.push(x)` was executed with `v.len() ≥ cap` (only then may `Vec::push` re-allocate:
      `Vec::with_capacity(cap)` guarantees `capacity() ≥ cap`) -/
  grew : Bool

/-- `for _ in 0..n { let (new_input, x) = ListEntry::parse(input)?; v.push(x); input = new_input; }
    Ok((input, v))` with the capacity `cap` requested before the loop -/
def listLoop (cap : Nat) : Nat → Bytes → List ListEntry → Bool → LoopExit
  | 0, input, v, g => ⟨.ok (v, input), v, g⟩                 -- Ok((input, v))
  | n + 1, input, v, g =>
    match parseListEntry input with                           -- ListEntry::parse(input)
    | .error e => ⟨.error e, v, g⟩                            -- `?`: return Err(e), `v` is dropped
    | .ok (x, newInput) =>
      listLoop cap n newInput (v ++ [x]) (g || decide (cap ≤ v.length))   -- v.push(x); input = ..

/-- `List::parse_with_tlf` (complete.rs:245-254): request, then the loop on the empty vector -/
def parseListWithLit (input : Bytes) (tlf : Tlf) : LoopExit :=
  listLoop (listCapRequest tlf.len input) tlf.len input [] false

/-! ### the transcribed loop is the model's loop -/

theorem listLoop_res_gen (cap : Nat) (n : Nat) : ∀ (input : Bytes) (v : List ListEntry) (g : Bool),
    (listLoop cap n input v g).res =
      (match parseEntries n input with
       | .error e => .error e
       | .ok (xs, r) => .ok (v ++ xs, r)) := by
  induction n with
  | zero => intro input v g; simp [listLoop, parseEntries]
  | succ n ih =>
    intro input v g
    simp only [listLoop, parseEntries]
    cases parseListEntry input with
    | error e => rfl
    | ok p =>
      obtain ⟨x, r⟩ := p
      simp only [ih]
      cases parseEntries n r with
      | error e => rfl
      | ok q => obtain ⟨xs, r'⟩ := q; simp

/-- The loop with accumulator returns exactly the result of the model's `parseEntries`
    (whatever capacity was requested). -/
theorem listLoop_res (cap n : Nat) (input : Bytes) :
    (listLoop cap n input [] false).res = parseEntries n input := by
  rw [listLoop_res_gen]
  cases parseEntries n input with
  | error e => rfl
  | ok q => obtain ⟨xs, r⟩ := q; simp

/-- ... and so `parseListWithLit` returns what the ghost model `parseListWithG` returns and
    requests what it records -/
theorem parseListWithLit_res (input : Bytes) (tlf : Tlf) :
    (parseListWithLit input tlf).res = (parseListWithG input tlf).1 ∧
    (parseListWithG input tlf).2 = [listCapRequest tlf.len input] :=
  ⟨listLoop_res _ _ _, rfl⟩

/-- on success the vector at exit is the returned list -/
theorem listLoop_ok_v (cap n : Nat) (input : Bytes) (xs : List ListEntry) (r : Bytes)
    (h : (listLoop cap n input [] false).res = .ok (xs, r)) :
    (listLoop cap n input [] false).v = xs := by
  have key : ∀ (n : Nat) (input : Bytes) (v : List ListEntry) (g : Bool) (xs : List ListEntry)
      (r : Bytes), (listLoop cap n input v g).res = .ok (xs, r) →
      (listLoop cap n input v g).v = xs := by
    intro n
    induction n with
    | zero =>
      intro input v g xs r h
      simp only [listLoop, Except.ok.injEq, Prod.mk.injEq] at h
      exact h.1
    | succ n ih =>
      intro input v g xs r h
      simp only [listLoop] at h ⊢
      cases hp : parseListEntry input with
      | error e => rw [hp] at h; cases h
      | ok p => obtain ⟨x, r1⟩ := p; rw [hp] at h; exact ih _ _ _ _ _ h
  exact key _ _ _ _ _ _ h

/-! ### what the loop did before it returned -/

/-- Invariant of the loop: it performed `k` pushes with `k ≤ n` iterations, every pushed entry
    consumed at least 8 bytes, the vector at exit is the start vector plus the `k` entries that
    `parseEntries k` returns, and on an error exit the next entry failed with that error. -/
theorem listLoop_spec (cap : Nat) (n : Nat) : ∀ (input : Bytes) (v : List ListEntry) (g : Bool),
    ∃ (k : Nat) (es : List ListEntry) (r : Bytes),
      k ≤ n ∧ parseEntries k input = .ok (es, r) ∧ es.length = k ∧ r.length + 8 * k ≤ input.length ∧
      (listLoop cap n input v g).v = v ++ es ∧
      (match (listLoop cap n input v g).res with
       | .ok (xs, r') => k = n ∧ xs = v ++ es ∧ r' = r
       | .error e => k < n ∧ parseListEntry r = .error e) := by
  induction n with
  | zero =>
    intro input v g
    exact ⟨0, [], input, Nat.le_refl _, rfl, rfl, by omega, by simp [listLoop], by simp [listLoop]⟩
  | succ n ih =>
    intro input v g
    simp only [listLoop]
    cases hp : parseListEntry input with
    | error e =>
      exact ⟨0, [], input, Nat.zero_le _, rfl, rfl, by omega, by simp, by simp [hp]⟩
    | ok p =>
      obtain ⟨x, r1⟩ := p
      have hx := entry_consumes input x r1 hp
      obtain ⟨k, es, r, h1, h2, h3, h4, h5, h6⟩ :=
        ih r1 (v ++ [x]) (g || decide (cap ≤ v.length))
      refine ⟨k + 1, x :: es, r, by omega, ?_, by simp [h3], by omega, by simp [h5], ?_⟩
      · simp only [parseEntries, hp, h2]
      · simp only
        cases hr : (listLoop cap n r1 (v ++ [x]) (g || decide (cap ≤ v.length))).res with
        | error e => rw [hr] at h6; simp only at h6 ⊢; exact ⟨by omega, h6.2⟩
        | ok q =>
          obtain ⟨xs, r'⟩ := q
          rw [hr] at h6; simp only at h6 ⊢
          exact ⟨by omega, by rw [h6.2.1]; simp, h6.2.2⟩

/-- Characterisation of a failing list loop in terms of the model alone: if `parseEntries n input`
    fails with `e`, then a shorter loop of some `k < n` iterations succeeds, the next entry fails
    with `e`, and the `k` entries of the shorter loop are exactly what had been pushed (each
    consumed at least 8 bytes). -/
theorem listLoop_error_char (cap n : Nat) (input : Bytes) (e : PErr)
    (h : parseEntries n input = .error e) :
    ∃ (k : Nat) (es : List ListEntry) (r : Bytes),
      k < n ∧ parseEntries k input = .ok (es, r) ∧ parseListEntry r = .error e ∧
      (listLoop cap n input [] false).v = es ∧ es.length = k ∧ r.length + 8 * k ≤ input.length := by
  obtain ⟨k, es, r, _, h2, h3, h4, h5, h6⟩ := listLoop_spec cap n input [] false
  rw [listLoop_res, h] at h6
  simp only at h6
  exact ⟨k, es, r, h6.1, h2, h6.2, by simpa using h5, h3, h4⟩

/-- number of pushes: at most the declared count and at most an eighth of the input -/
theorem listLoop_pushes (cap n : Nat) (input : Bytes) (v : List ListEntry) (g : Bool) :
    ∃ k, (listLoop cap n input v g).v.length = v.length + k ∧ k ≤ n ∧ 8 * k ≤ input.length := by
  obtain ⟨k, es, r, h1, _, h3, h4, h5, _⟩ := listLoop_spec cap n input v g
  exact ⟨k, by rw [h5, List.length_append, h3], h1, by omega⟩

/-- In EVERY case (the list parses, or `ListEntry::parse` fails after some entries) the number of
    `v.push(x)` calls executed by `List::parse_with_tlf` is at most the element count passed to
    `Vec::with_capacity`, `min(declared, |input|)`: at most `declared` iterations run and every
    pushed entry consumed at least one (really eight) bytes of `input`. -/
theorem pushes_le_request (input : Bytes) (tlf : Tlf) :
    (parseListWithLit input tlf).v.length ≤ listCapRequest tlf.len input := by
  obtain ⟨k, h1, h2, h3⟩ := listLoop_pushes (listCapRequest tlf.len input) tlf.len input [] false
  unfold parseListWithLit
  rw [h1]
  unfold listCapRequest
  simp only [List.length_nil]
  omega

/-- sharper: eight times the number of pushes is at most the input length -/
theorem pushes_le_eighth (input : Bytes) (tlf : Tlf) :
    8 * (parseListWithLit input tlf).v.length ≤ input.length ∧
    (parseListWithLit input tlf).v.length ≤ tlf.len := by
  obtain ⟨k, h1, h2, h3⟩ := listLoop_pushes (listCapRequest tlf.len input) tlf.len input [] false
  unfold parseListWithLit
  rw [h1]
  simp only [List.length_nil]
  omega

theorem listLoop_no_regrow (cap : Nat) (n : Nat) : ∀ (input : Bytes) (v : List ListEntry),
    v.length + min n input.length ≤ cap → (listLoop cap n input v false).grew = false := by
  induction n with
  | zero => intro input v _; rfl
  | succ n ih =>
    intro input v h
    simp only [listLoop]
    cases hp : parseListEntry input with
    | error e => rfl
    | ok p =>
      obtain ⟨x, r1⟩ := p
      have hx := entry_consumes input x r1 hp
      have hlt : ¬ cap ≤ v.length := by omega
      simp only [hlt, decide_false, Bool.or_false]
      apply ih
      simp only [List.length_append, List.length_singleton]
      omega

/-- No `v.push(x)` of the loop - in a successful or a failing parse - is executed with
    `v.len()` at or above the requested capacity: the vector never re-allocates. -/
theorem no_regrow (input : Bytes) (tlf : Tlf) : (parseListWithLit input tlf).grew = false :=
  listLoop_no_regrow _ _ _ _ (by simp [listCapRequest])

/-! ### non-vacuity -/

/-- one complete list entry (10 bytes) -/
def entryA : Bytes := [0x77, 0x02, 0xbb, 0x01, 0x01, 0x01, 0x01, 0x62, 0x05, 0x01]

-- the entry parses and leaves the rest
example : (parseListEntry (entryA ++ [0xaa])).toOption.map (·.2) = some [0xaa] := by decide +kernel

-- FAILURE after two pushes: declared 3 entries, two are there, then garbage.
-- requested min(3, 22) = 3, pushed 2, no regrowth, result is an error
example : (parseListWithLit (entryA ++ entryA ++ [0xff, 0xff]) ⟨.listOf, 3⟩).v.length = 2 ∧
    listCapRequest 3 (entryA ++ entryA ++ [0xff, 0xff]) = 3 ∧
    (parseListWithLit (entryA ++ entryA ++ [0xff, 0xff]) ⟨.listOf, 3⟩).grew = false ∧
    (parseListWithLit (entryA ++ entryA ++ [0xff, 0xff]) ⟨.listOf, 3⟩).res.toOption.isNone = true := by
  decide +kernel

-- FAILURE with a huge declared count: requested min(2^32-1, 13) = 13, pushed 1
example : (parseListWithLit (entryA ++ [0x77, 0x02, 0xbb]) ⟨.listOf, 4294967295⟩).v.length = 1 ∧
    listCapRequest 4294967295 (entryA ++ [0x77, 0x02, 0xbb]) = 13 := by
  decide +kernel

-- SUCCESS, and the bound is attained: declared 2, requested 2, pushed 2
example : (parseListWithLit (entryA ++ entryA ++ [0x01]) ⟨.listOf, 2⟩).v.length = 2 ∧
    listCapRequest 2 (entryA ++ entryA ++ [0x01]) = 2 ∧
    (parseListWithLit (entryA ++ entryA ++ [0x01]) ⟨.listOf, 2⟩).res.toOption.map (·.2) =
      some [0x01] := by
  decide +kernel

-- the `grew` flag is not constantly false: with a smaller request the second push would re-allocate
example : (listLoop 1 2 (entryA ++ entryA) [] false).grew = true := by decide +kernel

end Sml.C06

import Sml.Lemmas.DecRound
/-
  Helper lemmas for C16: a decoder over a buffer of capacity `c` behaves exactly like the same
  decoder over an unbounded buffer until the first data push that does not fit; that step reports
  `OutOfMemory` and resets the decoder.  (`Dec.pushByte_rel`, `Dec.pushAll_rel`, `frame_too_small`.)
-/
namespace Sml
open C07

namespace Dec

/-- the same decoder over a buffer of capacity `c` -/
def withCapR (d : Dec) (c : Option Nat) : Dec := { d with buf := { d.buf with cap := c } }

/-- the state right after an out-of-memory error: a fresh decoder up to the dead `crc` field -/
def OomState (s : Dec) (c : Option Nat) : Prop :=
  s.st = .look 0 0 ∧ s.raw = 0 ∧ s.zc = 0 ∧ s.buf.rdata = [] ∧ s.buf.cap = c

/-- the contents fit capacity `c` -/
def WFc (c : Option Nat) (d : Dec) : Prop := fitsCap c d.buf.rdata.length

theorem oomState_reset (d : Dec) : OomState (d.reset).1 d.buf.cap :=
  ⟨rfl, rfl, rfl, rfl, rfl⟩

theorem fitsCap_zero (c : Option Nat) : fitsCap c 0 := by
  cases c <;> simp

/-- Result `x` of a buffer operation on a decoder with an unbounded buffer versus result `y` of the
same operation with capacity `c`: the same (and it fits), or `y` is out of memory. -/
def RelO (c : Option Nat) (x y : Option Dec) : Prop :=
  (∃ d', x = some d' ∧ d'.buf.cap = none ∧ y = some (d'.withCapR c) ∧ WFc c d') ∨ y = none

def RelP (c : Option Nat) (x y : PushRes) : Prop :=
  (∃ d', x = .ok d' ∧ d'.buf.cap = none ∧ y = .ok (d'.withCapR c) ∧ WFc c d') ∨ y = .oom

theorem pushInner_rel (U : Dec) (b : UInt8) (c : Option Nat) (hU : U.buf.cap = none) :
    RelO c (U.pushInner b) ((U.withCapR c).pushInner b) := by
  obtain ⟨r, crc, st, z, ⟨cap, rd⟩⟩ := U
  simp only at hU
  subst hU
  have hx : (⟨r, crc, st, z, ⟨none, rd⟩⟩ : Dec).pushInner b = some ⟨r, crc, st, z, ⟨none, b :: rd⟩⟩ := by
    simp [pushInner, Buf.push, Buf.isFull]
  cases c with
  | none => left; exact ⟨_, hx, rfl, by simp [pushInner, Buf.push, Buf.isFull, withCapR], trivial⟩
  | some N =>
    by_cases h : N ≤ rd.length
    · right; simp [pushInner, Buf.push, Buf.isFull, withCapR, h]
    · left
      refine ⟨_, hx, rfl, by simp [pushInner, Buf.push, Buf.isFull, withCapR, h], ?_⟩
      simp [WFc]; omega

theorem pushZeros_rel (k : Nat) (c : Option Nat) : ∀ (U : Dec), U.buf.cap = none → WFc c U →
    RelO c (U.pushZeros k) ((U.withCapR c).pushZeros k) := by
  induction k with
  | zero => intro U hU hw; exact Or.inl ⟨U, rfl, hU, rfl, hw⟩
  | succ k ih =>
    intro U hU hw
    rcases pushInner_rel U 0 c hU with ⟨d1, h1, hc1, h1', hw1⟩ | h1'
    · rcases ih d1 hc1 hw1 with ⟨d2, h2, hc2, h2', hw2⟩ | h2'
      · left; exact ⟨d2, by simp [pushZeros, h1, h2], hc2, by simp [pushZeros, h1', h2'], hw2⟩
      · right; simp [pushZeros, h1', h2']
    · right; simp [pushZeros, h1']

theorem flush_rel (c : Option Nat) (U : Dec) (hU : U.buf.cap = none) (hw : WFc c U) :
    RelO c U.flush (U.withCapR c).flush := by
  have hz : (U.withCapR c).zc = U.zc := rfl
  rcases pushZeros_rel U.zc c U hU hw with ⟨d1, h1, hc1, h1', hw1⟩ | h1'
  · left
    exact ⟨{ d1 with zc := 0 }, by simp [flush, h1], hc1, by simp [flush, hz, h1']; rfl, hw1⟩
  · right
    simp [flush, hz, h1']

theorem pushData_rel (c : Option Nat) (U : Dec) (b : UInt8) (hU : U.buf.cap = none)
    (hw : WFc c U) : RelP c (U.pushData b) ((U.withCapR c).pushData b) := by
  have hz : (U.withCapR c).zc = U.zc := rfl
  by_cases hb : b = 0
  · subst hb
    by_cases h3 : U.zc ≤ 3
    · have h255 : ¬ (255 < U.zc + 1) := by omega
      exact Or.inl ⟨{ U with zc := U.zc + 1 }, by simp [pushData, h3, h255], hU,
        by simp [pushData, h3, hz, h255]; rfl, hw⟩
    · rcases pushInner_rel U 0 c hU with ⟨d1, h1, hc1, h1', hw1⟩ | h1'
      · left; exact ⟨d1, by simp [pushData, h3, h1], hc1, by simp [pushData, h3, hz, h1'], hw1⟩
      · right; simp [pushData, h3, hz, h1']
  · rcases flush_rel c U hU hw with ⟨d1, h1, hc1, h1', hw1⟩ | h1'
    · rcases pushInner_rel d1 b c hc1 with ⟨d2, h2, hc2, h2', hw2⟩ | h2'
      · left; exact ⟨d2, by simp [pushData, hb, h1, h2], hc2, by simp [pushData, hb, h1', h2'], hw2⟩
      · right; simp [pushData, hb, h1', h2']
    · right; simp [pushData, hb, h1']

theorem pushRep_rel (c : Option Nat) (x : UInt8) (k : Nat) : ∀ (U : Dec), U.buf.cap = none →
    WFc c U → RelP c (U.pushRep x k) ((U.withCapR c).pushRep x k) := by
  induction k with
  | zero => intro U hU hw; exact Or.inl ⟨U, rfl, hU, rfl, hw⟩
  | succ k ih =>
    intro U hU hw
    rcases pushData_rel c U x hU hw with ⟨d1, h1, hc1, h1', hw1⟩ | h1'
    · rcases ih d1 hc1 hw1 with ⟨d2, h2, hc2, h2', hw2⟩ | h2'
      · left; exact ⟨d2, by simp [pushRep, h1, h2], hc2, by simp [pushRep, h1', h2'], hw2⟩
      · right; simp [pushRep, h1', h2']
    · right; simp [pushRep, h1']

theorem pushList_rel (c : Option Nat) (l : List UInt8) : ∀ (U : Dec), U.buf.cap = none →
    WFc c U → RelP c (U.pushList l) ((U.withCapR c).pushList l) := by
  induction l with
  | nil => intro U hU hw; exact Or.inl ⟨U, rfl, hU, rfl, hw⟩
  | cons x l ih =>
    intro U hU hw
    rcases pushData_rel c U x hU hw with ⟨d1, h1, hc1, h1', hw1⟩ | h1'
    · rcases ih d1 hc1 hw1 with ⟨d2, h2, hc2, h2', hw2⟩ | h2'
      · left; exact ⟨d2, by simp [pushList, h1, h2], hc2, by simp [pushList, h1', h2'], hw2⟩
      · right; simp [pushList, h1', h2']
    · right; simp [pushList, h1']

/-- unbounded outcome `x` versus bounded outcome `y` of one `push_byte`: the same (and the buffer
contents fit), or `y` is the out-of-memory error with the decoder reset -/
def Rel (c : Option Nat) (x y : Dec × Res) : Prop :=
  (y = (x.1.withCapR c, x.2) ∧ WFc c x.1 ∧ x.1.buf.cap = none) ∨
    (y.2 = .err .oom ∧ OomState y.1 c)

theorem afterPush_rel {c : Option Nat} {U0 B0 : Dec} {rU rB : PushRes}
    {k k' : Dec → Dec × Res} (hB0 : B0.buf.cap = c) (hr : RelP c rU rB)
    (hk : ∀ d, d.buf.cap = none → WFc c d → Rel c (k d) (k' (d.withCapR c))) :
    Rel c (afterPush U0 rU k) (afterPush B0 rB k') := by
  rcases hr with ⟨d1, h1, hc1, h1', hw1⟩ | h1'
  · subst h1 h1'
    exact hk d1 hc1 hw1
  · subst h1'
    right
    exact ⟨rfl, hB0 ▸ oomState_reset B0⟩


theorem pushLook_withCapR (c : Option Nat) (U : Dec) (disc init : Nat) (b : UInt8) :
    pushLook (U.withCapR c) disc init b =
      ((pushLook U disc init b).1.withCapR c, (pushLook U disc init b).2) ∧
    (pushLook U disc init b).1.buf = U.buf := by
  unfold pushLook
  simp only [withCapR]
  constructor
  · repeat' split
    all_goals simp_all
  · repeat' split
    all_goals simp_all


theorem pushLook_rel (c : Option Nat) (U : Dec) (disc init : Nat) (b : UInt8)
    (hU : U.buf.cap = none) (hw : WFc c U) :
    Rel c (pushLook U disc init b) (pushLook (U.withCapR c) disc init b) := by
  obtain ⟨h1, h2⟩ := pushLook_withCapR c U disc init b
  exact Or.inl ⟨h1, by unfold WFc; rw [h2]; exact hw, by rw [h2]; exact hU⟩

theorem pushEnd_rel (c : Option Nat) (U : Dec) (q : Quad) (hU : U.buf.cap = none) (hw : WFc c U) :
    Rel c (pushEnd U q) (pushEnd (U.withCapR c) q) := by
  obtain ⟨r, crc, st, z, ⟨cap, rd⟩⟩ := U
  simp only at hU
  subst hU
  show Rel c (pushEnd ⟨r, crc, st, z, ⟨none, rd⟩⟩ q) (pushEnd ⟨r, crc, st, z, ⟨c, rd⟩⟩ q)
  simp only [pushEnd]
  split
  · next h =>
    exact Or.inl ⟨rfl, fitsCap_zero c, rfl⟩
  · next h =>
    split
    · next h2 =>
      exact Or.inl ⟨rfl, hw, rfl⟩
    · next h2 =>
      rcases flush_rel c ⟨r, crcInit, st, z - q.b.toNat, ⟨none, rd⟩⟩ rfl hw with
        ⟨d1, h1, hc1, h1', hw1⟩ | h1'
      · simp only [withCapR] at h1'
        simp only [h1, h1']
        exact Or.inl ⟨rfl, hw1, hc1⟩
      · simp only [withCapR] at h1'
        simp only [h1']
        exact Or.inr ⟨rfl, rfl, rfl, rfl, rfl, rfl⟩


theorem pushEscComplete_rel (c : Option Nat) (U : Dec) (q : Quad) (hU : U.buf.cap = none)
    (hw : WFc c U) : Rel c (pushEscComplete U q) (pushEscComplete (U.withCapR c) q) := by
  obtain ⟨r, crc, st, z, ⟨cap, rd⟩⟩ := U
  simp only at hU
  subst hU
  show Rel c (pushEscComplete ⟨r, crc, st, z, ⟨none, rd⟩⟩ q) (pushEscComplete ⟨r, crc, st, z, ⟨c, rd⟩⟩ q)
  simp only [pushEscComplete]
  split
  · -- literal escape
    refine afterPush_rel rfl
      (pushList_rel c q.toList ⟨r, crcUpdate crc q.toList, st, z, ⟨none, rd⟩⟩ rfl hw) ?_
    intro d hd hwd
    exact Or.inl ⟨rfl, hwd, hd⟩
  · split
    · split
      · exact Or.inl ⟨rfl, hw, rfl⟩
      · exact Or.inl ⟨by simp [withCapR, Buf.clear], fitsCap_zero c, rfl⟩
    · split
      · exact pushEnd_rel c ⟨r, crc, st, z, ⟨none, rd⟩⟩ q rfl hw
      · split
        · refine afterPush_rel rfl
            (pushRep_rel c 0x1b _ ⟨r, crcUpdate crc (q.toList.take ((4 - r % 4) % 4)), st, z, ⟨none, rd⟩⟩ rfl hw) ?_
          intro d hd hwd
          exact Or.inl ⟨rfl, hwd, hd⟩
        · exact Or.inl ⟨rfl, fitsCap_zero c, rfl⟩

theorem pushByte_rel (c : Option Nat) (U : Dec) (b : UInt8) (hU : U.buf.cap = none)
    (hw : WFc c U) : Rel c (U.pushByte b) ((U.withCapR c).pushByte b) := by
  obtain ⟨r, crc, st, z, ⟨cap, rd⟩⟩ := U
  simp only at hU
  subst hU
  show Rel c (pushByte ⟨r, crc, st, z, ⟨none, rd⟩⟩ b) (pushByte ⟨r, crc, st, z, ⟨c, rd⟩⟩ b)
  cases st with
  | look disc init =>
    simp only [pushByte]
    exact pushLook_rel c ⟨r + 1, crc, .look disc init, z, ⟨none, rd⟩⟩ disc init b rfl hw
  | done =>
    simp only [pushByte, reset, Buf.clear]
    exact pushLook_rel c ⟨0 + 1, crc, .look 0 0, 0, ⟨none, []⟩⟩ 0 0 b rfl (fitsCap_zero c)
  | normal =>
    simp only [pushByte]
    split
    · exact Or.inl ⟨rfl, hw, rfl⟩
    · refine afterPush_rel rfl
        (pushData_rel c ⟨r + 1, crcByte crc b, .normal, z, ⟨none, rd⟩⟩ b rfl hw) ?_
      intro d hd hwd
      exact Or.inl ⟨rfl, hwd, hd⟩
  | escChars n =>
    simp only [pushByte]
    split
    · refine afterPush_rel rfl
        (pushRep_rel c 0x1b n ⟨r + 1, crcByte crc b, .escChars n, z, ⟨none, rd⟩⟩ rfl hw) ?_
      intro d hd hwd
      refine afterPush_rel rfl (pushData_rel c d b hd hwd) ?_
      intro d2 hd2 hwd2
      exact Or.inl ⟨rfl, hwd2, hd2⟩
    · split
      · exact Or.inl ⟨rfl, hw, rfl⟩
      · split
        · exact Or.inl ⟨rfl, hw, rfl⟩
        · exact Or.inl ⟨rfl, hw, rfl⟩
  | escPayload step q =>
    simp only [pushByte]
    split
    · exact Or.inl ⟨rfl, hw, rfl⟩
    · split
      · exact Or.inl ⟨rfl, hw, rfl⟩
      · exact pushEscComplete_rel c ⟨r + 1, crc, .escPayload step q, z, ⟨none, rd⟩⟩ _ rfl hw


theorem borrowBuf_withCapR (d : Dec) (c : Option Nat) : (d.withCapR c).borrowBuf = d.borrowBuf := rfl

theorem push_rel (c : Option Nat) (U : Dec) (b : UInt8) (hU : U.buf.cap = none) (hw : WFc c U) :
    ((U.withCapR c).push b = ((U.push b).1.withCapR c, (U.push b).2) ∧ WFc c (U.push b).1 ∧
        (U.push b).1.buf.cap = none) ∨
      (((U.withCapR c).push b).2 = .err .oom ∧ OomState ((U.withCapR c).push b).1 c) := by
  rcases pushByte_rel c U b hU hw with ⟨h1, h2, h3⟩ | ⟨h1, h2⟩
  · left
    unfold push
    rw [h1]
    generalize U.pushByte b = x at h2 h3 ⊢
    obtain ⟨d1, r⟩ := x
    cases r <;> exact ⟨rfl, h2, h3⟩
  · right
    unfold push
    generalize (U.withCapR c).pushByte b = y at h1 h2 ⊢
    obtain ⟨d1, r⟩ := y
    simp only at h1 h2
    subst h1
    exact ⟨rfl, h2⟩

theorem pushAll_consR (d : Dec) (b : UInt8) (bs : List UInt8) :
    Dec.pushAll d (b :: bs) =
      ((Dec.pushAll (d.push b).1 bs).1, (d.push b).2 :: (Dec.pushAll (d.push b).1 bs).2) := rfl

theorem pushAll_take (xs : List UInt8) : ∀ (i : Nat) (d : Dec),
    (Dec.pushAll d (xs.take i)).2 = (Dec.pushAll d xs).2.take i := by
  induction xs with
  | nil => intro i d; simp [Dec.pushAll]
  | cons x xs ih =>
    intro i d
    cases i with
    | zero => simp [Dec.pushAll]
    | succ i => simp only [List.take_succ_cons, pushAll_consR, ih]

/-- The run with capacity `c` equals the unbounded run, or its first non-`None` result is the
out-of-memory error (after which the decoder is reset). -/
theorem pushAll_rel (c : Option Nat) (xs : List UInt8) : ∀ (U : Dec), U.buf.cap = none → WFc c U →
    (Dec.pushAll (U.withCapR c) xs = ((Dec.pushAll U xs).1.withCapR c, (Dec.pushAll U xs).2) ∧
        WFc c (Dec.pushAll U xs).1) ∨
      ∃ i, i < xs.length ∧
        (Dec.pushAll (U.withCapR c) (xs.take (i + 1))).2 = (Dec.pushAll U (xs.take i)).2 ++ [.err .oom] ∧
        OomState (Dec.pushAll (U.withCapR c) (xs.take (i + 1))).1 c := by
  induction xs with
  | nil => intro U _ hw; exact Or.inl ⟨rfl, hw⟩
  | cons x xs ih =>
    intro U hU hw
    rcases push_rel c U x hU hw with ⟨h1, h2, h3⟩ | ⟨h1, h2⟩
    · rcases ih (U.push x).1 h3 h2 with ⟨g1, g2⟩ | ⟨i, hi, g1, g2⟩
      · left
        simp only [pushAll_consR, h1, g1]
        exact ⟨trivial, g2⟩
      · right
        refine ⟨i + 1, by simp; omega, ?_, ?_⟩
        · simp only [List.take_succ_cons, pushAll_consR, h1, g1]
          rfl
        · simp only [List.take_succ_cons, pushAll_consR, h1]
          exact g2
    · right
      refine ⟨0, by simp, ?_, ?_⟩
      · simp [Dec.pushAll, h1]
      · simpa [Dec.pushAll] using h2

end Dec

open Spec (frame) in
/-- A frame whose payload does not fit the buffer: the first result that is not `Ok(None)` is the
out-of-memory error, it occurs within the frame, and the decoder is reset by it. -/
theorem frame_too_small (p : List UInt8) (N : Nat) (h : N < p.length) :
    ∃ i, i < (frame p).length ∧
      (Dec.pushAll (Dec.fresh (some N)) ((frame p).take (i + 1))).2 =
        List.replicate i Out.none ++ [Out.err DecErr.oom] ∧
      Dec.OomState (Dec.pushAll (Dec.fresh (some N)) ((frame p).take (i + 1))).1 (some N) := by
  obtain ⟨d', hd, hfin⟩ := Dec.frame_delivers (Dec.fresh none) p rfl rfl rfl trivial
  have hrun := hd.pushAll
  obtain ⟨_, _, _, _, _, _, _, hdata⟩ := id hd
  rcases Dec.pushAll_rel (some N) (frame p) (Dec.fresh none) rfl (Nat.zero_le N) with
    ⟨_, g2⟩ | ⟨i, hi, g1, g2⟩
  · exfalso
    rw [hrun] at g2
    have : d'.buf.rdata.length = p.length := by
      rw [← hdata]; simp [Buf.data]
    simp only [Dec.WFc] at g2
    rw [this] at g2
    exact absurd g2 (by simp; omega)
  · refine ⟨i, hi, ?_, g2⟩
    have e : Dec.fresh (some N) = (Dec.fresh none).withCapR (some N) := rfl
    rw [e, g1, Dec.pushAll_take, hrun]
    congr 1
    rw [List.take_append_of_le_length (by simp; omega)]
    simp
    omega

end Sml

import Sml.Spec.TlfSpec
/-
  Helper lemmas for property C12 (type-length fields and primitive values).
-/
namespace Sml.C12
open Sml Sml.Spec

/-! ### complete enumeration over the 256 byte values -/

theorem forall_uint8 {P : UInt8 → Prop} (h : ∀ n (h : n < 256), P (UInt8.ofNatLT n h)) :
    ∀ b, P b := by
  intro b
  have := h b.toNat b.toNat_lt
  simpa using this

/-- Boolean equality test on `Except PErr Ty` (only used to state a decidable bridge lemma) -/
def exEq : Except PErr Ty → Except PErr Ty → Bool
  | .ok a, .ok b => a == b
  | .error a, .error b => a == b
  | _, _ => false

theorem exEq_eq {a b : Except PErr Ty} (h : exEq a b = true) : a = b := by
  cases a <;> cases b <;> simp_all [exEq]

theorem nib_bridge : ∀ b : UInt8, tlfNibble b = nib b := forall_uint8 (by decide +kernel)
theorem more_bridge : ∀ b : UInt8, tlfMore b = more b := forall_uint8 (by decide +kernel)
theorem tyz_bridge : ∀ b : UInt8, (tlfTyBits b ≠ 0) ↔ (tyBits b ≠ 0) :=
  forall_uint8 (by decide +kernel)
theorem nib_lt : ∀ b : UInt8, nib b < 16 := fun b => Nat.mod_lt _ (by decide)

theorem ofBits_bridge (b : UInt8) :
    Ty.ofBits (tlfTyBits b) =
      (match tyOfBits (tyBits b) with | some t => .ok t | none => .error .tlfInvalidTy) :=
  exEq_eq (forall_uint8 (P := fun b => exEq (Ty.ofBits (tlfTyBits b))
      (match tyOfBits (tyBits b) with | some t => .ok t | none => .error .tlfInvalidTy) = true)
    (by decide +kernel) b)

theorem gt7F_bridge : ∀ b : UInt8, (b > 0x7F) ↔ b.toNat ≥ 128 := forall_uint8 (by decide +kernel)
theorem pos_bridge : ∀ b : UInt8, decide (b > 0) = decide (b ≠ 0) :=
  forall_uint8 (by decide +kernel)

/-! ### nibble value -/

theorem nibVal_nil : nibVal [] = 0 := rfl

theorem nibVal_snoc (pre : Bytes) (b : UInt8) : nibVal (pre ++ [b]) = nibVal pre * 16 + nib b := by
  simp [nibVal, List.foldl_append]

theorem nibVal_single (b : UInt8) : nibVal [b] = nib b := by
  simp [nibVal]

/-! ### the continuation loop -/

theorem contError_at (pre : Bytes) (b : UInt8) (rest : Bytes) :
    contError (pre ++ b :: rest) pre.length =
      if tyBits b ≠ 0 then some .tlfNextByteTypeMismatch
      else if nibVal pre * 16 > u32Max then some .tlfLengthOverflow
      else none := by
  simp [contError]

theorem contError_end (pre : Bytes) : contError pre pre.length = some .unexpectedEOF := by
  simp [contError]

/-- forget the remaining input -/
def proj : Except PErr (Nat × Nat × Bytes) → Except PErr (Nat × Nat)
  | .ok (l, m, _) => .ok (l, m)
  | .error e => .error e

theorem tlfLoop_spec (rest : Bytes) : ∀ (pre : Bytes), pre.length + rest.length ≤ u32Max →
    proj (tlfLoop (nibVal pre) pre.length rest) =
      match (List.range' pre.length ((rest.takeWhile more).length + 1)).findSome?
          (contError (pre ++ rest)) with
      | some e => .error e
      | none => .ok (nibVal ((pre ++ rest).take (pre.length + (rest.takeWhile more).length + 1)),
                     pre.length + (rest.takeWhile more).length + 1) := by
  induction rest with
  | nil =>
    intro pre _
    simp [tlfLoop, proj, contError_end]
  | cons b rest ih =>
    intro pre hlen
    have hlen' : ¬ (pre.length + 1 > u32Max) := by simp at hlen; omega
    rw [tlfLoop, List.range'_succ, List.findSome?_cons, contError_at]
    simp only [hlen', if_false, nib_bridge, more_bridge]
    by_cases hty : tyBits b ≠ 0
    · simp [hty, (tyz_bridge b).2 hty, proj]
    · have hty' : ¬ (tlfTyBits b ≠ 0) := fun h => hty ((tyz_bridge b).1 h)
      simp only [hty, hty', if_false]
      by_cases hov : nibVal pre * 16 > u32Max
      · simp [hov, proj]
      · have hnib := nib_lt b
        have h2 : ¬ (nibVal pre * 16 + nib b > u32Max) := by
          simp only [u32Max] at hov ⊢; omega
        simp only [hov, h2, if_false]
        by_cases hm : more b = true
        · have := ih (pre ++ [b]) (by simp at hlen ⊢; omega)
          simp only [nibVal_snoc, List.length_append, List.length_singleton,
            List.append_assoc, List.singleton_append] at this
          simp only [hm, if_true, List.takeWhile_cons, List.length_cons]
          rw [this]
          simp only [Nat.add_assoc, Nat.add_comm 1]
        · have htake : List.take (pre.length + 1) (pre ++ b :: rest) = pre ++ [b] := by
            rw [show pre ++ b :: rest = (pre ++ [b]) ++ rest by simp]
            exact List.take_left' (by simp)
          simp [hm, proj, htake, nibVal_snoc]

theorem proj_eq_error {x : Except PErr (Nat × Nat × Bytes)} {e : PErr} (h : proj x = .error e) :
    x = .error e := by
  cases x with
  | error e' => simpa [proj] using h
  | ok v => obtain ⟨l, m, r⟩ := v; simp [proj] at h

theorem proj_eq_ok {x : Except PErr (Nat × Nat × Bytes)} {l m : Nat} (h : proj x = .ok (l, m)) :
    ∃ r, x = .ok (l, m, r) := by
  cases x with
  | error e' => simp [proj] at h
  | ok v =>
    obtain ⟨l', m', r⟩ := v
    simp only [proj, Except.ok.injEq, Prod.mk.injEq] at h
    exact ⟨r, by rw [h.1, h.2]⟩

/-- what the loop returns as remaining input / field size / value range -/
theorem tlfLoop_rest (rest : Bytes) : ∀ (len n l m : Nat) (r : Bytes),
    tlfLoop len n rest = .ok (l, m, r) →
      n < m ∧ m - n ≤ rest.length ∧ r = rest.drop (m - n) ∧ l ≤ u32Max := by
  induction rest with
  | nil => intro len n l m r h; simp [tlfLoop] at h
  | cons b rest ih =>
    intro len n l m r h
    rw [tlfLoop] at h
    split at h
    · simp at h
    · split at h
      · simp at h
      · split at h
        · simp at h
        · simp only at h
          split at h
          · simp at h
          · split at h
            · obtain ⟨h1, h2, h3, h4⟩ := ih _ _ _ _ _ h
              refine ⟨by omega, by simp; omega, ?_, h4⟩
              rw [h3, show m - n = (m - (n + 1)) + 1 by omega, List.drop_succ_cons]
            · simp only [Except.ok.injEq, Prod.mk.injEq] at h
              obtain ⟨h1, h2, h3⟩ := h
              subst h1 h2 h3
              refine ⟨by omega, by simp, by simp, by omega⟩

theorem tlfLoop_no_panic (rest : Bytes) : ∀ (len n : Nat) (s : String),
    n + rest.length ≤ u32Max → tlfLoop len n rest ≠ .error (.panic s) := by
  induction rest with
  | nil => intro len n s _; simp [tlfLoop]
  | cons b rest ih =>
    intro len n s hlen
    simp only [List.length_cons] at hlen
    rw [tlfLoop]
    have hlen' : ¬ (n + 1 > u32Max) := by omega
    simp only [hlen', if_false]
    split
    · simp
    · split
      · simp
      · rename_i _ hov
        have hnib : tlfNibble b < 16 := by rw [nib_bridge]; exact nib_lt b
        have h2 : ¬ (len * 16 + tlfNibble b > u32Max) := by
          simp only [u32Max] at hov ⊢; omega
        simp only [h2, if_false]
        split
        · exact ih _ _ _ (by omega)
        · simp

end Sml.C12

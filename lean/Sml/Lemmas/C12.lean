import Sml.Spec.TlfSpec
/-
  Helper lemmas for property C12 (type-length fields and primitive values).
-/
namespace Sml.C12
open Sml Sml.Spec

/-! ### complete enumeration over the 256 byte values -/

theorem forall_uint8 {P : UInt8 → Prop} (h : ∀ n (h : n < 256), P (UInt8.ofNatLT n h)) :
    ∀ b, P b := by
  intro b
  have := h b.toNat b.toNat_lt
  simpa using this

/-- Boolean equality test on `Except PErr Ty` (only used to state a decidable bridge lemma) -/
def exEq : Except PErr Ty → Except PErr Ty → Bool
  | .ok a, .ok b => a == b
  | .error a, .error b => a == b
  | _, _ => false

theorem exEq_eq {a b : Except PErr Ty} (h : exEq a b = true) : a = b := by
  cases a <;> cases b <;> simp_all [exEq]

theorem nib_bridge : ∀ b : UInt8, tlfNibble b = nib b := forall_uint8 (by decide +kernel)
theorem more_bridge : ∀ b : UInt8, tlfMore b = more b := forall_uint8 (by decide +kernel)
theorem tyz_bridge : ∀ b : UInt8, (tlfTyBits b ≠ 0) ↔ (tyBits b ≠ 0) :=
  forall_uint8 (by decide +kernel)
theorem nib_lt : ∀ b : UInt8, nib b < 16 := fun b => Nat.mod_lt _ (by decide)

theorem ofBits_bridge (b : UInt8) :
    Ty.ofBits (tlfTyBits b) =
      (match tyOfBits (tyBits b) with | some t => .ok t | none => .error .tlfInvalidTy) :=
  exEq_eq (forall_uint8 (P := fun b => exEq (Ty.ofBits (tlfTyBits b))
      (match tyOfBits (tyBits b) with | some t => .ok t | none => .error .tlfInvalidTy) = true)
    (by decide +kernel) b)

theorem gt7F_bridge : ∀ b : UInt8, (b > 0x7F) ↔ b.toNat ≥ 128 := forall_uint8 (by decide +kernel)
theorem pos_bridge : ∀ b : UInt8, decide (b > 0) = decide (b ≠ 0) :=
  forall_uint8 (by decide +kernel)

/-! ### nibble value -/

theorem nibVal_nil : nibVal [] = 0 := rfl

theorem nibVal_snoc (pre : Bytes) (b : UInt8) : nibVal (pre ++ [b]) = nibVal pre * 16 + nib b := by
  simp [nibVal, List.foldl_append]

theorem nibVal_single (b : UInt8) : nibVal [b] = nib b := by
  simp [nibVal]

/-! ### the continuation loop -/

theorem contError_at (pre : Bytes) (b : UInt8) (rest : Bytes) :
    contError (pre ++ b :: rest) pre.length =
      if tyBits b ≠ 0 then some .tlfNextByteTypeMismatch
      else if nibVal pre * 16 > u32Max then some .tlfLengthOverflow
      else none := by
  simp [contError]

theorem contError_end (pre : Bytes) : contError pre pre.length = some .unexpectedEOF := by
  simp [contError]

/-- forget the remaining input -/
def proj : Except PErr (Nat × Nat × Bytes) → Except PErr (Nat × Nat)
  | .ok (l, m, _) => .ok (l, m)
  | .error e => .error e

theorem tlfLoop_spec (rest : Bytes) : ∀ (pre : Bytes),
    proj (tlfLoop (nibVal pre) pre.length rest) =
      match (List.range' pre.length ((rest.takeWhile more).length + 1)).findSome?
          (contError (pre ++ rest)) with
      | some e => .error e
      | none => .ok (nibVal ((pre ++ rest).take (pre.length + (rest.takeWhile more).length + 1)),
                     pre.length + (rest.takeWhile more).length + 1) := by
  induction rest with
  | nil =>
    intro pre
    simp [tlfLoop, proj, contError_end]
  | cons b rest ih =>
    intro pre
    rw [tlfLoop, List.range'_succ, List.findSome?_cons, contError_at]
    simp only [nib_bridge, more_bridge]
    by_cases hty : tyBits b ≠ 0
    · simp [hty, (tyz_bridge b).2 hty, proj]
    · have hty' : ¬ (tlfTyBits b ≠ 0) := fun h => hty ((tyz_bridge b).1 h)
      simp only [hty, hty', if_false]
      by_cases hov : nibVal pre * 16 > u32Max
      · simp [hov, proj]
      · have hnib := nib_lt b
        have h2 : ¬ (nibVal pre * 16 + nib b > u32Max) := by
          simp only [u32Max] at hov ⊢; omega
        simp only [hov, h2, if_false]
        by_cases hm : more b = true
        · have := ih (pre ++ [b])
          simp only [nibVal_snoc, List.length_append, List.length_singleton,
            List.append_assoc, List.singleton_append] at this
          simp only [hm, if_true, List.takeWhile_cons, List.length_cons]
          rw [this]
          simp only [Nat.add_assoc, Nat.add_comm 1]
        · have htake : List.take (pre.length + 1) (pre ++ b :: rest) = pre ++ [b] := by
            rw [show pre ++ b :: rest = (pre ++ [b]) ++ rest by simp]
            exact List.take_left' (by simp)
          simp [hm, proj, htake, nibVal_snoc]

theorem proj_eq_error {x : Except PErr (Nat × Nat × Bytes)} {e : PErr} (h : proj x = .error e) :
    x = .error e := by
  cases x with
  | error e' => simpa [proj] using h
  | ok v => obtain ⟨l, m, r⟩ := v; simp [proj] at h

theorem proj_eq_ok {x : Except PErr (Nat × Nat × Bytes)} {l m : Nat} (h : proj x = .ok (l, m)) :
    ∃ r, x = .ok (l, m, r) := by
  cases x with
  | error e' => simp [proj] at h
  | ok v =>
    obtain ⟨l', m', r⟩ := v
    simp only [proj, Except.ok.injEq, Prod.mk.injEq] at h
    exact ⟨r, by rw [h.1, h.2]⟩

/-- what the loop returns as remaining input / field size / value range -/
theorem tlfLoop_rest (rest : Bytes) : ∀ (len n l m : Nat) (r : Bytes),
    tlfLoop len n rest = .ok (l, m, r) →
      n < m ∧ m - n ≤ rest.length ∧ r = rest.drop (m - n) ∧ l ≤ u32Max := by
  induction rest with
  | nil => intro len n l m r h; simp [tlfLoop] at h
  | cons b rest ih =>
    intro len n l m r h
    rw [tlfLoop] at h
    split at h
    · simp at h
    · split at h
      · simp at h
      · simp only at h
        split at h
        · simp at h
        · split at h
          · obtain ⟨h1, h2, h3, h4⟩ := ih _ _ _ _ _ h
            refine ⟨by omega, by simp; omega, ?_, h4⟩
            rw [h3, show m - n = (m - (n + 1)) + 1 by omega, List.drop_succ_cons]
          · simp only [Except.ok.injEq, Prod.mk.injEq] at h
            obtain ⟨h1, h2, h3⟩ := h
            subst h1 h2 h3
            refine ⟨by omega, by simp, by simp, by omega⟩

theorem tlfLoop_no_panic (rest : Bytes) : ∀ (len n : Nat) (s : String),
    tlfLoop len n rest ≠ .error (.panic s) := by
  induction rest with
  | nil => intro len n s; simp [tlfLoop]
  | cons b rest ih =>
    intro len n s
    rw [tlfLoop]
    split
    · simp
    · split
      · simp
      · rename_i _ hov
        have hnib : tlfNibble b < 16 := by rw [nib_bridge]; exact nib_lt b
        have h2 : ¬ (len * 16 + tlfNibble b > u32Max) := by
          simp only [u32Max] at hov ⊢; omega
        simp only [h2, if_false]
        split
        · exact ih _ _ _
        · simp

/-! ### `parseTlf` against the positional rule -/

/-- projection of a parser result to (value, number of consumed bytes) -/
def consumed (bs : Bytes) : PRes Tlf → Except PErr (Tlf × Nat)
  | .ok (t, rest) => .ok (t, bs.length - rest.length)
  | .error e => .error e

theorem parseTlf_eq_spec (bs : Bytes) :
    consumed bs (parseTlf bs) = tlfSpec bs := by
  cases bs with
  | nil => simp [parseTlf, tlfSpec, consumed]
  | cons b rest =>
    rw [parseTlf, tlfSpec, ofBits_bridge]
    cases hty : tyOfBits (tyBits b) with
    | none => simp [consumed]
    | some ty =>
      simp only [more_bridge, nib_bridge]
      by_cases hres : ty = .boolean ∧ more b = true
      · simp [hres, consumed]
      · simp only [hres, if_false]
        by_cases hm : more b = true
        · simp only [hm, if_true, List.takeWhile_cons, List.length_cons]
          have hspec := tlfLoop_spec rest [b]
          simp only [nibVal_single, List.length_singleton, List.singleton_append] at hspec
          cases hF : (List.range' 1 ((List.takeWhile more rest).length + 1)).findSome?
              (contError (b :: rest)) with
          | some e =>
            rw [hF] at hspec
            rw [proj_eq_error hspec]
            simp [consumed]
          | none =>
            rw [hF] at hspec
            simp only [Nat.add_comm 1] at hspec
            obtain ⟨r, hr⟩ := proj_eq_ok hspec
            obtain ⟨h1, h2, h3, h4⟩ := tlfLoop_rest _ _ _ _ _ _ hr
            rw [hr]
            have hrl : r.length = rest.length - ((List.takeWhile more rest).length + 1) := by
              rw [h3]; simp
            generalize nibVal (List.take ((List.takeWhile more rest).length + 1 + 1) (b :: rest)) = v
              at *
            generalize (List.takeWhile more rest).length = j at *
            have hiff : (j + 1 + 1 > u32Max ∨ v < j + 1 + 1) ↔ v < j + 1 + 1 := by omega
            have hcons : rest.length + 1 - r.length = j + 1 + 1 := by omega
            by_cases hl : ty = .listOf
            · simp [hl, consumed, hcons]
            · simp only [hl, if_false, ne_eq, not_false_eq_true, if_true, hiff]
              split <;> simp [consumed, hcons]
        · have hm' : more b = false := by simpa using hm
          simp only [hm', Bool.false_eq_true, if_false, List.takeWhile_cons, List.length_nil,
            List.range'_zero, List.findSome?_nil, Nat.zero_add, List.take_succ_cons,
            List.take_zero, nibVal_single]
          by_cases hl : ty = .listOf
          · simp [hl, consumed]
          · have hiff : (1 > u32Max ∨ nib b < 1) ↔ nib b < 1 := by simp [u32Max]
            simp only [hl, if_false, ne_eq, not_false_eq_true, if_true, hiff]
            split <;> simp [consumed]

theorem parseTlf_ok (bs : Bytes) (t : Tlf) (rest : Bytes) (h : parseTlf bs = .ok (t, rest)) :
    ∃ n, n ≤ bs.length ∧ 1 ≤ n ∧ rest = bs.drop n ∧ t.len ≤ u32Max := by
  cases bs with
  | nil => simp [parseTlf] at h
  | cons b bs =>
    rw [parseTlf] at h
    split at h
    · simp at h
    · split at h
      · simp at h
      · simp only at h
        have key : ∀ l m r, (if tlfMore b = true then tlfLoop (tlfNibble b) 1 bs
              else .ok (tlfNibble b, 1, bs)) = .ok (l, m, r) →
            1 ≤ m ∧ m - 1 ≤ bs.length ∧ r = bs.drop (m - 1) ∧ l ≤ u32Max := by
          intro l m r hr
          split at hr
          · obtain ⟨h1, h2, h3, h4⟩ := tlfLoop_rest _ _ _ _ _ _ hr
            exact ⟨by omega, h2, h3, h4⟩
          · simp only [Except.ok.injEq, Prod.mk.injEq] at hr
            obtain ⟨h1, h2, h3⟩ := hr
            subst h1 h2 h3
            have : tlfNibble b < 16 := by rw [nib_bridge]; exact nib_lt b
            refine ⟨by omega, by simp, by simp, by simp only [u32Max]; omega⟩
        split at h
        · simp at h
        · rename_i l m r hr
          obtain ⟨h1, h2, h3, h4⟩ := key _ _ _ hr
          have hdrop : r = List.drop m (b :: bs) := by
            rw [h3, show m = (m - 1) + 1 by omega, List.drop_succ_cons]; simp
          split at h
          · split at h
            · simp at h
            · simp only [Except.ok.injEq, Prod.mk.injEq] at h
              obtain ⟨ht, hr'⟩ := h
              subst ht hr'
              exact ⟨m, by simp; omega, h1, hdrop, by simp; omega⟩
          · simp only [Except.ok.injEq, Prod.mk.injEq] at h
            obtain ⟨ht, hr'⟩ := h
            subst ht hr'
            exact ⟨m, by simp; omega, h1, hdrop, h4⟩

theorem parseTlf_no_panic (bs : Bytes) (s : String) :
    parseTlf bs ≠ .error (.panic s) := by
  cases bs with
  | nil => simp [parseTlf]
  | cons b bs =>
    rw [parseTlf]
    split
    · rename_i e he
      intro hc
      simp only [Except.error.injEq] at hc
      subst hc
      rw [ofBits_bridge] at he
      split at he <;> simp at he
    · split
      · simp
      · simp only
        split
        · rename_i e he
          intro hc
          simp only [Except.error.injEq] at hc
          subst hc
          split at he
          · exact tlfLoop_no_panic _ _ _ _ he
          · simp at he
        · split
          · split <;> simp
          · simp

/-! ### big-endian values and sign extension -/

theorem beNat_nil : beNat [] = 0 := rfl

theorem foldl_be (bs : Bytes) : ∀ a : Nat,
    bs.foldl (fun acc b => acc * 256 + b.toNat) a = a * 256 ^ bs.length + beNat bs := by
  induction bs with
  | nil => intro a; simp [beNat]
  | cons b bs ih =>
    intro a
    simp only [beNat, List.foldl_cons, List.length_cons] at ih ⊢
    rw [ih (a * 256 + b.toNat), ih (0 * 256 + b.toNat)]
    simp only [Nat.zero_mul, Nat.zero_add, Nat.pow_succ, Nat.add_mul]
    rw [Nat.mul_assoc, Nat.mul_comm 256]
    omega

theorem beNat_cons (b : UInt8) (bs : Bytes) :
    beNat (b :: bs) = b.toNat * 256 ^ bs.length + beNat bs := by
  have := foldl_be bs (0 * 256 + b.toNat)
  simpa [beNat] using this

theorem beNat_append (as bs : Bytes) :
    beNat (as ++ bs) = beNat as * 256 ^ bs.length + beNat bs := by
  simp only [beNat, List.foldl_append]
  exact foldl_be bs _

theorem beNat_lt (bs : Bytes) : beNat bs < 256 ^ bs.length := by
  induction bs with
  | nil => simp [beNat]
  | cons b bs ih =>
    rw [beNat_cons, List.length_cons, Nat.pow_succ]
    have hb := b.toNat_lt
    have : b.toNat * 256 ^ bs.length ≤ 255 * 256 ^ bs.length := Nat.mul_le_mul_right _ (by omega)
    omega

theorem beNat_replicate_zero (k : Nat) : beNat (List.replicate k (0 : UInt8)) = 0 := by
  induction k with
  | zero => rfl
  | succ k ih => rw [List.replicate_succ, beNat_cons, ih]; simp

theorem beNat_replicate_ff (k : Nat) : beNat (List.replicate k (0xFF : UInt8)) + 1 = 256 ^ k := by
  induction k with
  | zero => rfl
  | succ k ih =>
    rw [List.replicate_succ, beNat_cons, List.length_replicate, Nat.pow_succ]
    have : (0xFF : UInt8).toNat = 255 := rfl
    rw [this]; omega

theorem two_pow_8 (n : Nat) : 2 ^ (8 * n) = 256 ^ n := by
  rw [Nat.pow_mul]

theorem two_pow_8_pred (n : Nat) (h : 1 ≤ n) : 2 ^ (8 * n - 1) * 2 = 256 ^ n := by
  rw [← Nat.pow_succ, ← two_pow_8]; congr 1; omega


theorem fromBe_unsigned_ext (size k : Nat) (bs : Bytes) :
    fromBe false size (List.replicate k (0x00 : UInt8) ++ bs) = beNat bs := by
  simp [fromBe, beNat_append, beNat_replicate_zero]

theorem fromBe_signed_ext (b0 : UInt8) (tl : Bytes) (k : Nat) :
    fromBe true (k + (tl.length + 1))
        (List.replicate k (if b0 > 0x7F then (0xFF : UInt8) else 0x00) ++ b0 :: tl) =
      if b0.toNat ≥ 128 then (beNat (b0 :: tl) : Int) - (2 ^ (8 * (tl.length + 1)) : Nat)
      else beNat (b0 :: tl) := by
  have hP : 0 < 256 ^ tl.length := Nat.pow_pos (by decide)
  have hQ : 0 < 256 ^ k := Nat.pow_pos (by decide)
  have ht := beNat_lt tl
  have hb := b0.toNat_lt
  have hW : 256 ^ (k + (tl.length + 1)) = 256 ^ k * (256 ^ tl.length * 256) := by
    rw [Nat.pow_add, Nat.pow_succ]
  have hH := two_pow_8_pred (k + (tl.length + 1)) (by omega)
  have hWge : 1 * (256 ^ tl.length * 256) ≤ 256 ^ k * (256 ^ tl.length * 256) :=
    Nat.mul_le_mul_right _ hQ
  have hL : 2 ^ (8 * (tl.length + 1)) = 256 ^ tl.length * 256 := by
    rw [two_pow_8, Nat.pow_succ]
  rw [hW] at hH
  simp only [fromBe, beNat_append, List.length_cons, two_pow_8, hL, true_and, hW, Nat.pow_succ]
  rw [beNat_cons]
  generalize hPd : 256 ^ tl.length = P at *
  generalize beNat tl = t at *
  by_cases hneg : b0.toNat ≥ 128
  · have hgt : b0 > 0x7F := (gt7F_bridge b0).2 hneg
    have hY : 128 * P ≤ b0.toNat * P := Nat.mul_le_mul_right _ hneg
    have hF := beNat_replicate_ff k
    have hZ : (beNat (List.replicate k (0xFF : UInt8)) + 1) * (P * 256)
        = beNat (List.replicate k (0xFF : UInt8)) * (P * 256) + P * 256 := by
      rw [Nat.add_mul, Nat.one_mul]
    rw [hF] at hZ
    simp only [hgt, if_true, hneg]
    generalize beNat (List.replicate k (0xFF : UInt8)) * (P * 256) = Z at *
    generalize b0.toNat * P = Y at *
    generalize 256 ^ k * (P * 256) = W at *
    generalize 2 ^ (8 * (k + (tl.length + 1)) - 1) = H at *
    have hc : Z + (Y + t) ≥ H := by omega
    rw [if_pos hc]
    omega
  · have hgt : ¬ b0 > 0x7F := fun h => hneg ((gt7F_bridge b0).1 h)
    have hY : b0.toNat * P ≤ 127 * P := Nat.mul_le_mul_right _ (by omega)
    simp only [hgt, if_false, hneg, beNat_replicate_zero, Nat.zero_mul, Nat.zero_add]
    generalize b0.toNat * P = Y at *
    generalize 256 ^ k * (P * 256) = W at *
    generalize 2 ^ (8 * (k + (tl.length + 1)) - 1) = H at *
    have hc : ¬ (Y + t ≥ H) := by omega
    rw [if_neg hc]


/-! ### numbers, booleans, octet strings, width classes -/

theorem numCheck_iff (signed : Bool) (size : Nat) (tlf : Tlf) :
    numCheck signed size tlf = true ↔
      tlf.ty = (if signed then Ty.integer else Ty.unsigned) ∧ 1 ≤ tlf.len ∧ tlf.len ≤ size := by
  simp only [numCheck, Bool.and_eq_true, decide_eq_true_eq, bne_iff_ne, ne_eq]
  constructor
  · rintro ⟨⟨a, b⟩, c⟩; exact ⟨a, by omega, b⟩
  · rintro ⟨a, b, c⟩; exact ⟨⟨a, c⟩, by omega⟩

/-- unsigned: zero extension keeps the plain big-endian value -/
theorem parseNum_unsigned (size : Nat) (input : Bytes) (tlf : Tlf)
    (h : numCheck false size tlf = true) :
    parseNum false size input tlf =
      if input.length < tlf.len then .error .unexpectedEOF
      else .ok ((beNat (input.take tlf.len) : Int), input.drop tlf.len) := by
  obtain ⟨_, h1, h2⟩ := (numCheck_iff _ _ _).1 h
  unfold parseNum takeN
  by_cases hl : input.length < tlf.len
  · simp [hl]
  · have h3 : ¬ size < tlf.len := by omega
    simp [hl, h3, fromBe_unsigned_ext]

/-- signed: sign extension followed by `from_be_bytes` is the two's-complement value of the
    encoded bytes -/
theorem parseNum_signed (size : Nat) (input : Bytes) (tlf : Tlf)
    (h : numCheck true size tlf = true) (hl : ¬ input.length < tlf.len) :
    ∃ b0 tl, input.take tlf.len = b0 :: tl ∧
      parseNum true size input tlf =
        .ok ((if b0.toNat ≥ 128 then (beNat (b0 :: tl) : Int) - (2 ^ (8 * (tl.length + 1)) : Nat)
              else beNat (b0 :: tl)), input.drop tlf.len) := by
  obtain ⟨_, h1, h2⟩ := (numCheck_iff _ _ _).1 h
  have hlen : (input.take tlf.len).length = tlf.len := by simp; omega
  cases hb : input.take tlf.len with
  | nil => rw [hb] at hlen; simp at hlen; omega
  | cons b0 tl =>
    refine ⟨b0, tl, rfl, ?_⟩
    rw [hb] at hlen
    simp only [List.length_cons] at hlen
    have h3 : ¬ size < tlf.len := by omega
    unfold parseNum takeN
    simp only [hl, if_false, hb, if_true, h3]
    have hsz : size = (size - tlf.len) + (tl.length + 1) := by omega
    rw [hsz, ← fromBe_signed_ext b0 tl (size - tlf.len)]
    simp [hlen]
    

theorem parseBoolWith_eq (input : Bytes) (tlf : Tlf) :
    parseBoolWith input tlf =
      match input with
      | [] => .error .unexpectedEOF
      | b :: rest => .ok (decide (b ≠ 0), rest) := by
  cases input with
  | nil => rfl
  | cons b rest => simp only [parseBoolWith, takeByte, pos_bridge]

theorem parseOctetWith_eq (input : Bytes) (tlf : Tlf) :
    parseOctetWith input tlf =
      if input.length < tlf.len then .error .unexpectedEOF
      else .ok (input.take tlf.len, input.drop tlf.len) := rfl

theorem cases_1_8 (w : Nat) (hw : 1 ≤ w ∧ w ≤ 8) :
    w = 1 ∨ w = 2 ∨ w = 3 ∨ w = 4 ∨ w = 5 ∨ w = 6 ∨ w = 7 ∨ w = 8 := by omega


theorem value_int_rej (w : Nat) (h : w = 0 ∨ 8 < w) (input : Bytes) :
    parseValueWith input ⟨.integer, w⟩ = .error .tlfMismatch ∧
    parseValueWith input ⟨.unsigned, w⟩ = .error .tlfMismatch ∧
    parseStatusWith input ⟨.unsigned, w⟩ = .error .tlfMismatch := by
  have e1 : ∀ s, s ≤ 8 → ¬ (w ≤ s ∧ ¬ w = 0) := by intro s hs; omega
  refine ⟨?_, ?_, ?_⟩ <;>
    simp [parseValueWith, parseStatusWith, boolCheck, octetCheck, numCheck, listTypeCheck,
      e1 1, e1 2, e1 4, e1 8]


/-! ### a field of unbounded size (regression witness for the `tlf_len` counter) -/

theorem tlfLoop_zeros (n : Nat) : ∀ m,
    tlfLoop 0 m (List.replicate n (0x80 : UInt8) ++ [0x05]) = .ok (5, m + n + 1, []) := by
  have h1 : tlfTyBits 0x80 = 0 := by decide
  have h2 : tlfNibble 0x80 = 0 := by decide
  have h3 : tlfMore 0x80 = true := by decide
  induction n with
  | zero => intro m; rfl
  | succ n ih =>
    intro m
    rw [List.replicate_succ, List.cons_append, tlfLoop]
    simp only [h1, h2, h3, ne_eq, not_true_eq_false, if_false, Nat.zero_mul, Nat.zero_add,
      show ¬ (0 > u32Max) by decide, if_true]
    rw [ih (m + 1)]
    simp only [Nat.add_assoc, Nat.add_comm 1]

theorem parseTlf_long (n : Nat) (hn : 4 ≤ n) :
    parseTlf (List.replicate (n + 1) (0x80 : UInt8) ++ [0x05]) = .error .tlfLengthUnderflow := by
  have h1 : tlfTyBits 0x80 = 0 := by decide
  have h2 : tlfNibble 0x80 = 0 := by decide
  have h3 : tlfMore 0x80 = true := by decide
  rw [List.replicate_succ, List.cons_append, parseTlf]
  simp only [h1, h2, h3, Ty.ofBits, if_true, tlfLoop_zeros]
  have : 1 + n + 1 > u32Max ∨ 5 < 1 + n + 1 := Or.inr (by omega)
  simp [this]

end Sml.C12

import Sml.Lemmas.DecBasic
import Sml.Spec.Tiling
/-
  `DecoderReader` over a byte source with faults (property C11).

  The reader over an `io::Read` (`SrcKind.io`) is the push decoder driven by the history
  `opsOf evs` (a byte is a `push_byte`, an "other" I/O error is a `reset`, `WouldBlock` and
  `Interrupted` are nothing).  Its complete behaviour under any sequence of `read` / `next` /
  `read_nb` / `next_nb` calls is

      `body d evs`  (the results produced while events are left),
      then the end-of-input report for the decoder state `endDec d evs`, then the idle answer
      forever                                                          (`Rdr.calls_eq`).

  All transformations of the event list asked for in C11 (erasing would-blocks / interrupts,
  cutting at an "other" error) are then statements about `body` / `endDec`.
-/
namespace Sml

/-! ### list helpers -/

theorem padTo_append_left {α : Type} (x : α) (a l : List α) (k : Nat) :
    padTo x (a ++ l) (a.length + k) = a ++ padTo x l k := by
  induction a with
  | nil => simp
  | cons y a ih =>
    rw [List.cons_append, List.length_cons, show a.length + 1 + k = (a.length + k) + 1 by omega,
      padTo_cons, ih]
    rfl

theorem map_padTo {α β : Type} (f : α → β) (x : α) (l : List α) (k : Nat) :
    (padTo x l k).map f = padTo (f x) (l.map f) k := by
  simp [padTo, List.map_take]

theorem padTo_snoc_self {α : Type} (x : α) (l : List α) (k : Nat) :
    padTo x (l ++ [x]) k = padTo x l k := by
  induction l generalizing k with
  | nil =>
    cases k with
    | zero => simp [padTo_zero]
    | succ k => rw [List.nil_append, padTo_cons, padTo_nil, padTo_nil, List.replicate_succ]
  | cons y l ih =>
    cases k with
    | zero => simp [padTo_zero]
    | succ k => rw [List.cons_append, padTo_cons, padTo_cons, ih]

theorem zipWith_replicate_left' {α β γ : Type} (f : α → β → γ) (a : α) (l : List β) :
    List.zipWith f (List.replicate l.length a) l = l.map (f a) := by
  induction l with
  | nil => rfl
  | cons y l ih => simp [List.replicate_succ, ih]

/-- among the first `k + W` elements of `L` there are at least `k` that satisfy `p`, if at most
`W` elements of `L` violate `p`: filtering the prefix or the whole list gives the same first `k` -/
theorem take_filter_take {α : Type} (p : α → Bool) (L : List α) (k W : Nat)
    (hW : (L.filter (fun a => !p a)).length ≤ W) (hL : k + W ≤ L.length) :
    ((L.take (k + W)).filter p).take k = (L.filter p).take k := by
  have hsplit : L.filter p = (L.take (k + W)).filter p ++ (L.drop (k + W)).filter p := by
    rw [← List.filter_append, List.take_append_drop]
  have h1 : ((L.take (k + W)).filter (fun a => !p a)).length ≤ W :=
    Nat.le_trans ((List.take_sublist _ _).filter _).length_le hW
  have h2 : (L.take (k + W)).length = k + W := by simp; omega
  have h3 := List.length_eq_countP_add_countP p (l := L.take (k + W))
  have hk : k ≤ ((L.take (k + W)).filter p).length := by
    rw [← List.countP_eq_length_filter]
    have h1' : (L.take (k + W)).countP (fun a => !p a) ≤ W := by
      rw [List.countP_eq_length_filter]; exact h1
    have : (L.take (k + W)).countP (fun a => ¬ p a = true) = (L.take (k + W)).countP (fun a => !p a) := by
      congr 1; funext a; cases p a <;> simp
    omega
  rw [hsplit, List.take_append_of_le_length hk]

namespace Rdr

/-! ### the four entry points are `read` plus a relabelling of its result -/

/-- how the entry point `c` presents the result of `read` -/
def view : Call → RItem → RItem
  | .read, x => x
  | .next, x => match x with | .ioErr .eof 0 => .none | x => x
  | .readNb, x => match x with | .ioErr .wouldBlock _ => .nbWouldBlock | x => x
  | .nextNb, x =>
    match x with | .ioErr .wouldBlock _ => .nbWouldBlock | .ioErr .eof 0 => .none | x => x

theorem call_eq_read (r : Rdr) (c : Call) : r.call c = ((r.read).1, view c (r.read).2) := by
  rcases h : r.read with ⟨r', x⟩
  cases c with
  | read => simp only [call, h, view]
  | next =>
    simp only [call, next, h, view]
    split <;> split <;> simp_all
  | readNb =>
    simp only [call, readNb, h, view]
    split <;> split <;> simp_all
  | nextNb =>
    simp only [call, nextNb, readNb, h, view]
    cases x with
    | ioErr k n =>
      cases k with
      | eof => cases n <;> rfl
      | wouldBlock => rfl
      | other => rfl
    | _ => rfl

/-- two readers on which `read` agrees answer every non-empty call sequence alike -/
theorem calls_congr_read {r r' : Rdr} (h : r.read = r'.read) (c : Call) (cs : List Call) :
    r.calls (c :: cs) = r'.calls (c :: cs) := by
  rw [calls_cons, calls_cons, call_eq_read, call_eq_read, h]

/-! ### the reader as a driver of the push decoder -/

/-- what `read` returns for a non-`None` result of `push_byte` -/
def outItem : Out → List RItem
  | .none => []
  | .msg m => [.ok m]
  | .err e => [.decErr e]
  | .panic s => [.panic s]

/-- the decoder operations an event sequence causes (`SrcKind.io`) -/
def opsOf : List Ev → List Op
  | [] => []
  | .byte b :: evs => .push b :: opsOf evs
  | .wouldBlock :: evs => opsOf evs
  | .interrupted :: evs => opsOf evs
  | .other :: evs => .reset :: opsOf evs

/-- the bytes among the events -/
def bytesOf : List Ev → List UInt8
  | [] => []
  | .byte b :: evs => b :: bytesOf evs
  | .wouldBlock :: evs => bytesOf evs
  | .interrupted :: evs => bytesOf evs
  | .other :: evs => bytesOf evs

/-- the results produced while events are left (`SrcKind.io`) -/
def body (d : Dec) : List Ev → List RItem
  | [] => []
  | .byte b :: evs => outItem (d.push b).2 ++ body (d.push b).1 evs
  | .wouldBlock :: evs => .ioErr .wouldBlock 0 :: body d evs
  | .interrupted :: evs => body d evs
  | .other :: evs => .ioErr .other d.reset.2 :: body d.reset.1 evs

/-- the decoder when the events are exhausted -/
def endDec (d : Dec) (evs : List Ev) : Dec := (d.run (opsOf evs)).1

/-- what `next` reports at end of input -/
def eofItem (d : Dec) : List RItem := if d.reset.2 = 0 then [] else [.ioErr .eof d.reset.2]

/-- all results of `next` that are not the final `None`s -/
def results (d : Dec) (evs : List Ev) : List RItem := body d evs ++ eofItem (endDec d evs)

/-- all results of `read` before the idle answer `Eof, 0` -/
def readResults (d : Dec) (evs : List Ev) : List RItem :=
  body d evs ++ [.ioErr .eof (endDec d evs).reset.2]

theorem endDec_nil (d : Dec) : endDec d [] = d := rfl
theorem endDec_byte (d : Dec) (b : UInt8) (evs : List Ev) :
    endDec d (.byte b :: evs) = endDec (d.push b).1 evs := rfl
theorem endDec_wouldBlock (d : Dec) (evs : List Ev) : endDec d (.wouldBlock :: evs) = endDec d evs :=
  rfl
theorem endDec_interrupted (d : Dec) (evs : List Ev) :
    endDec d (.interrupted :: evs) = endDec d evs := rfl
theorem endDec_other (d : Dec) (evs : List Ev) :
    endDec d (.other :: evs) = endDec d.reset.1 evs := rfl

theorem opsOf_append (e1 e2 : List Ev) : opsOf (e1 ++ e2) = opsOf e1 ++ opsOf e2 := by
  induction e1 with
  | nil => rfl
  | cons e e1 ih => cases e <;> simp [opsOf, ih]

theorem endDec_append (d : Dec) (e1 e2 : List Ev) :
    endDec d (e1 ++ e2) = endDec (endDec d e1) e2 := by
  unfold endDec
  rw [opsOf_append, Dec.run_append]

theorem body_append (e1 : List Ev) : ∀ (d : Dec) (e2 : List Ev),
    body d (e1 ++ e2) = body d e1 ++ body (endDec d e1) e2 := by
  induction e1 with
  | nil => intro d e2; rfl
  | cons e e1 ih =>
    intro d e2
    cases e with
    | byte b => simp only [List.cons_append, body, ih, endDec_byte, List.append_assoc]
    | wouldBlock => simp only [List.cons_append, body, ih, endDec_wouldBlock]
    | interrupted => simp only [List.cons_append, body, ih, endDec_interrupted]
    | other => simp only [List.cons_append, body, ih, endDec_other]

theorem bytesOf_append (e1 e2 : List Ev) : bytesOf (e1 ++ e2) = bytesOf e1 ++ bytesOf e2 := by
  induction e1 with
  | nil => rfl
  | cons e e1 ih => cases e <;> simp [bytesOf, ih]

theorem pushCount_opsOf (evs : List Ev) : Spec.pushCount (opsOf evs) = (bytesOf evs).length := by
  induction evs with
  | nil => rfl
  | cons e evs ih => cases e <;> simp [opsOf, bytesOf, Spec.pushCount, ih]

end Rdr

end Sml

import Sml.Lemmas.DecBasic
import Sml.Spec.Tiling
/-
  `DecoderReader` over a byte source with faults (property C11).

  The reader over an `io::Read` (`SrcKind.io`) is the push decoder driven by the history
  `opsOf evs` (a byte is a `push_byte`, an "other" I/O error and a mid-stream end of input
  (`Ev.eof`) are a `reset`, `WouldBlock` and `Interrupted` are nothing).  Its complete behaviour
  under any sequence of `read` / `next` / `read_nb` / `next_nb` calls is

      `body d evs`  (the results `read` produces while events are left; a mid-stream end of
      input is one `IoErr(Eof, n)`),
      then the end-of-input report for the decoder state `endDec d evs`, then the idle answer
      forever                                                          (`RF.calls_eq`).

  `next` presents an `IoErr(Eof, 0)` as `None` (`view .next`): `nextBody d evs` is `body d evs`
  seen through `next`; it equals `body d evs` when there is no mid-stream end of input
  (`map_view_next_body`).

  All transformations of the event list asked for in C11 (erasing would-blocks / interrupts,
  cutting at an "other" error or at a mid-stream end of input) are then statements about
  `body` / `endDec`.
-/
namespace Sml

/-! ### list helpers -/

theorem padTo_append_left {α : Type} (x : α) (a l : List α) (k : Nat) :
    padTo x (a ++ l) (a.length + k) = a ++ padTo x l k := by
  induction a with
  | nil => simp
  | cons y a ih =>
    rw [List.cons_append, List.length_cons, show a.length + 1 + k = (a.length + k) + 1 by omega,
      padTo_cons, ih]
    rfl

theorem map_padTo {α β : Type} (f : α → β) (x : α) (l : List α) (k : Nat) :
    (padTo x l k).map f = padTo (f x) (l.map f) k := by
  simp [padTo, List.map_take]

theorem padTo_snoc_self {α : Type} (x : α) (l : List α) (k : Nat) :
    padTo x (l ++ [x]) k = padTo x l k := by
  induction l generalizing k with
  | nil =>
    cases k with
    | zero => simp [padTo_zero]
    | succ k => rw [List.nil_append, padTo_cons, padTo_nil, padTo_nil, List.replicate_succ]
  | cons y l ih =>
    cases k with
    | zero => simp [padTo_zero]
    | succ k => rw [List.cons_append, padTo_cons, padTo_cons, ih]

theorem zipWith_replicate_left' {α β γ : Type} (f : α → β → γ) (a : α) (l : List β) :
    List.zipWith f (List.replicate l.length a) l = l.map (f a) := by
  induction l with
  | nil => rfl
  | cons y l ih => simp [List.replicate_succ, ih]

/-- among the first `k + W` elements of `L` there are at least `k` that satisfy `p`, if at most
`W` elements of `L` violate `p`: filtering the prefix or the whole list gives the same first `k` -/
theorem take_filter_take {α : Type} (p : α → Bool) (L : List α) (k W : Nat)
    (hW : (L.filter (fun a => !p a)).length ≤ W) (hL : k + W ≤ L.length) :
    ((L.take (k + W)).filter p).take k = (L.filter p).take k := by
  have hsplit : L.filter p = (L.take (k + W)).filter p ++ (L.drop (k + W)).filter p := by
    rw [← List.filter_append, List.take_append_drop]
  have h1 : ((L.take (k + W)).filter (fun a => !p a)).length ≤ W :=
    Nat.le_trans ((List.take_sublist _ _).filter _).length_le hW
  have h2 : (L.take (k + W)).length = k + W := by simp; omega
  have h3 := List.length_eq_countP_add_countP p (l := L.take (k + W))
  have hk : k ≤ ((L.take (k + W)).filter p).length := by
    rw [← List.countP_eq_length_filter]
    have h1' : (L.take (k + W)).countP (fun a => !p a) ≤ W := by
      rw [List.countP_eq_length_filter]; exact h1
    have : (L.take (k + W)).countP (fun a => ¬ p a = true) = (L.take (k + W)).countP (fun a => !p a) := by
      congr 1; funext a; cases p a <;> simp
    omega
  rw [hsplit, List.take_append_of_le_length hk]

namespace RF
open Rdr

/-! ### the four entry points are `read` plus a relabelling of its result -/

/-- how the entry point `c` presents the result of `read` -/
def view : Call → RItem → RItem
  | .read, x => x
  | .next, x => match x with | .ioErr .eof 0 => .none | x => x
  | .readNb, x => match x with | .ioErr .wouldBlock _ => .nbWouldBlock | x => x
  | .nextNb, x =>
    match x with | .ioErr .wouldBlock _ => .nbWouldBlock | .ioErr .eof 0 => .none | x => x

theorem call_eq_read (r : Rdr) (c : Call) : r.call c = ((r.read).1, view c (r.read).2) := by
  rcases h : r.read with ⟨r', x⟩
  cases c with
  | read => simp only [call, h, view]
  | next =>
    simp only [call, next, h, view]
    split <;> split <;> simp_all
  | readNb =>
    simp only [call, readNb, h, view]
    split <;> split <;> simp_all
  | nextNb =>
    simp only [call, nextNb, readNb, h, view]
    cases x with
    | ioErr k n =>
      cases k with
      | eof => cases n <;> rfl
      | wouldBlock => rfl
      | other => rfl
    | _ => rfl

/-- two readers on which `read` agrees answer every non-empty call sequence alike -/
theorem calls_congr_read {r r' : Rdr} (h : r.read = r'.read) (c : Call) (cs : List Call) :
    r.calls (c :: cs) = r'.calls (c :: cs) := by
  rw [calls_cons, calls_cons, call_eq_read, call_eq_read, h]

/-! ### the reader as a driver of the push decoder -/

/-- what `read` returns for a non-`None` result of `push_byte` -/
def outItem : Out → List RItem
  | .none => []
  | .msg m => [.ok m]
  | .err e => [.decErr e]
  | .panic s => [.panic s]

/-- the decoder operations an event sequence causes (`SrcKind.io`) -/
def opsOf : List Ev → List Op
  | [] => []
  | .byte b :: evs => .push b :: opsOf evs
  | .wouldBlock :: evs => opsOf evs
  | .interrupted :: evs => opsOf evs
  | .other :: evs => .reset :: opsOf evs
  | .eof :: evs => .reset :: opsOf evs

/-- the bytes among the events -/
def bytesOf : List Ev → List UInt8
  | [] => []
  | .byte b :: evs => b :: bytesOf evs
  | .wouldBlock :: evs => bytesOf evs
  | .interrupted :: evs => bytesOf evs
  | .other :: evs => bytesOf evs
  | .eof :: evs => bytesOf evs

/-- the results `read` produces while events are left (`SrcKind.io`) -/
def body (d : Dec) : List Ev → List RItem
  | [] => []
  | .byte b :: evs => outItem (d.push b).2 ++ body (d.push b).1 evs
  | .wouldBlock :: evs => .ioErr .wouldBlock 0 :: body d evs
  | .interrupted :: evs => body d evs
  | .other :: evs => .ioErr .other d.reset.2 :: body d.reset.1 evs
  | .eof :: evs => .ioErr .eof d.reset.2 :: body d.reset.1 evs

/-- what `next` makes of these: a mid-stream end of input with nothing pending is `None` -/
def nextBody (d : Dec) (evs : List Ev) : List RItem := (body d evs).map (view .next)

/-- the decoder when the events are exhausted -/
def endDec (d : Dec) (evs : List Ev) : Dec := (d.run (opsOf evs)).1

/-- what `next` reports at end of input -/
def eofItem (d : Dec) : List RItem := if d.reset.2 = 0 then [] else [.ioErr .eof d.reset.2]

/-- all results of `next` that are not the final `None`s (a mid-stream end of input with nothing
pending contributes a `None` in the middle) -/
def results (d : Dec) (evs : List Ev) : List RItem := nextBody d evs ++ eofItem (endDec d evs)

/-- all results of `read` before the idle answer `Eof, 0` -/
def readResults (d : Dec) (evs : List Ev) : List RItem :=
  body d evs ++ [.ioErr .eof (endDec d evs).reset.2]

theorem endDec_nil (d : Dec) : endDec d [] = d := rfl
theorem endDec_byte (d : Dec) (b : UInt8) (evs : List Ev) :
    endDec d (.byte b :: evs) = endDec (d.push b).1 evs := rfl
theorem endDec_wouldBlock (d : Dec) (evs : List Ev) : endDec d (.wouldBlock :: evs) = endDec d evs :=
  rfl
theorem endDec_interrupted (d : Dec) (evs : List Ev) :
    endDec d (.interrupted :: evs) = endDec d evs := rfl
theorem endDec_other (d : Dec) (evs : List Ev) :
    endDec d (.other :: evs) = endDec d.reset.1 evs := rfl
theorem endDec_eof (d : Dec) (evs : List Ev) :
    endDec d (.eof :: evs) = endDec d.reset.1 evs := rfl

theorem opsOf_append (e1 e2 : List Ev) : opsOf (e1 ++ e2) = opsOf e1 ++ opsOf e2 := by
  induction e1 with
  | nil => rfl
  | cons e e1 ih => cases e <;> simp [opsOf, ih]

theorem endDec_append (d : Dec) (e1 e2 : List Ev) :
    endDec d (e1 ++ e2) = endDec (endDec d e1) e2 := by
  unfold endDec
  rw [opsOf_append, Dec.run_append]

theorem body_append (e1 : List Ev) : ∀ (d : Dec) (e2 : List Ev),
    body d (e1 ++ e2) = body d e1 ++ body (endDec d e1) e2 := by
  induction e1 with
  | nil => intro d e2; rfl
  | cons e e1 ih =>
    intro d e2
    cases e with
    | byte b => simp only [List.cons_append, body, ih, endDec_byte, List.append_assoc]
    | wouldBlock => simp only [List.cons_append, body, ih, endDec_wouldBlock]
    | interrupted => simp only [List.cons_append, body, ih, endDec_interrupted]
    | other => simp only [List.cons_append, body, ih, endDec_other]
    | eof => simp only [List.cons_append, body, ih, endDec_eof]

theorem nextBody_append (d : Dec) (e1 e2 : List Ev) :
    nextBody d (e1 ++ e2) = nextBody d e1 ++ nextBody (endDec d e1) e2 := by
  unfold nextBody; rw [body_append, List.map_append]

theorem bytesOf_append (e1 e2 : List Ev) : bytesOf (e1 ++ e2) = bytesOf e1 ++ bytesOf e2 := by
  induction e1 with
  | nil => rfl
  | cons e e1 ih => cases e <;> simp [bytesOf, ih]

theorem pushCount_opsOf (evs : List Ev) : Spec.pushCount (opsOf evs) = (bytesOf evs).length := by
  induction evs with
  | nil => rfl
  | cons e evs ih => cases e <;> simp [opsOf, bytesOf, Spec.pushCount, ih]

/-! ### one `read` call -/

theorem read_byte_cases (kind : SrcKind) (d : Dec) (b : UInt8) (evs : List Ev) :
    ((d.push b).2 = .none ∧
      read { kind := kind, dec := d, evs := .byte b :: evs } =
        read { kind := kind, dec := (d.push b).1, evs := evs }) ∨
    (∃ x, outItem (d.push b).2 = [x] ∧
      read { kind := kind, dec := d, evs := .byte b :: evs } =
        ({ kind := kind, dec := (d.push b).1, evs := evs }, x)) := by
  rw [read_byte, Dec.push_eq]
  rcases hp : d.pushByte b with ⟨d', r⟩
  cases r with
  | more => exact Or.inl ⟨rfl, rfl⟩
  | ready =>
    have hd := Dec.pushByte_ready hp
    exact Or.inr ⟨.ok d'.buf.data, rfl, by simp [Dec.borrowBuf, Dec.isDone, hd]⟩
  | err e => exact Or.inr ⟨.decErr e, rfl, rfl⟩
  | panic s => exact Or.inr ⟨.panic s, rfl, rfl⟩

theorem read_wouldBlock (kind : SrcKind) (d : Dec) (evs : List Ev) :
    read { kind := kind, dec := d, evs := .wouldBlock :: evs } =
      ({ kind := kind, dec := d, evs := evs }, .ioErr .wouldBlock 0) := rfl

theorem read_interrupted (d : Dec) (evs : List Ev) :
    read { kind := .io, dec := d, evs := .interrupted :: evs } =
      read { kind := .io, dec := d, evs := evs } := by
  simp only [Rdr.read]; rw [readLoop]

theorem read_other (kind : SrcKind) (d : Dec) (evs : List Ev) :
    read { kind := kind, dec := d, evs := .other :: evs } =
      ({ kind := kind, dec := d.reset.1, evs := evs }, .ioErr .other d.reset.2) := rfl

/-- a mid-stream end of input (slice / iterator / `io::Read`): `IoErr(Eof, n)`, the decoder is
reset, the source is positioned behind the event -/
theorem read_eof {kind : SrcKind} (hk : kind ≠ .eh) (d : Dec) (evs : List Ev) :
    read { kind := kind, dec := d, evs := .eof :: evs } =
      ({ kind := kind, dec := d.reset.1, evs := evs }, .ioErr .eof d.reset.2) := by
  cases kind with
  | mem => rfl
  | io => rfl
  | eh => exact absurd rfl hk

/-- the embedded-hal source has no end of input: the event is an error like any other -/
theorem read_eof_eh (d : Dec) (evs : List Ev) :
    read { kind := .eh, dec := d, evs := .eof :: evs } =
      ({ kind := .eh, dec := d.reset.1, evs := evs }, .ioErr .other d.reset.2) := rfl

/-! ### the complete behaviour -/

/-- exhausted input, decoder already reset: every entry point gives its idle answer -/
theorem calls_exhausted {kind : SrcKind} (hk : kind ≠ .eh) (cs : List Call) :
    ∀ {d : Dec}, Dec.IsReset d →
      (({ kind := kind, dec := d, evs := [] } : Rdr).calls cs).2 =
        cs.map (fun c => view c (.ioErr .eof 0)) := by
  induction cs with
  | nil => intro d _; rfl
  | cons c cs ih =>
    intro d h
    have h0 : d.reset.2 = 0 := by simp [Dec.reset, h.1, h.2.1]
    rw [calls_cons, call_eq_read, read_nil hk, h0, List.map_cons]
    simp only
    rw [ih (Dec.isReset_reset d)]

/-- Any sequence of `read` / `next` / `read_nb` / `next_nb` calls on a reader over an `io::Read`,
any events: the `i`-th call presents (`view`) the `i`-th element of `readResults`, and `Eof, 0`
once these are used up. -/
theorem calls_eq (evs : List Ev) : ∀ (d : Dec) (cs : List Call),
    (({ kind := .io, dec := d, evs := evs } : Rdr).calls cs).2 =
      List.zipWith view cs (padTo (.ioErr .eof 0) (readResults d evs) cs.length) := by
  induction evs with
  | nil =>
    intro d cs
    cases cs with
    | nil => rfl
    | cons c cs =>
      rw [calls_cons, call_eq_read, read_nil (by simp)]
      simp only
      rw [calls_exhausted (by simp) cs (Dec.isReset_reset d)]
      simp only [readResults, body, endDec_nil, List.nil_append, List.length_cons, padTo_cons,
        padTo_nil, List.zipWith_cons_cons]
      congr 1
      induction cs with
      | nil => rfl
      | cons c cs ih => simp [List.replicate_succ, ih]
  | cons e evs ih =>
    intro d cs
    cases cs with
    | nil => rfl
    | cons c cs =>
      cases e with
      | byte b =>
        rcases read_byte_cases .io d b evs with ⟨hn, hr⟩ | ⟨x, hx, hr⟩
        · rw [calls_congr_read hr, ih]
          simp only [readResults, body, hn, outItem, List.nil_append, endDec_byte]
        · rw [calls_cons, call_eq_read, hr]
          simp only
          rw [ih]
          simp only [readResults, body, hx, endDec_byte, List.cons_append, List.nil_append,
            List.length_cons, padTo_cons, List.zipWith_cons_cons]
      | wouldBlock =>
        rw [calls_cons, call_eq_read, read_wouldBlock]
        simp only
        rw [ih]
        simp only [readResults, body, endDec_wouldBlock, List.cons_append,
          List.length_cons, padTo_cons, List.zipWith_cons_cons]
      | interrupted =>
        rw [calls_congr_read (read_interrupted d evs), ih]
        simp only [readResults, body, endDec_interrupted]
      | other =>
        rw [calls_cons, call_eq_read, read_other]
        simp only
        rw [ih]
        simp only [readResults, body, endDec_other, List.cons_append,
          List.length_cons, padTo_cons, List.zipWith_cons_cons]
      | eof =>
        rw [calls_cons, call_eq_read, read_eof (by simp)]
        simp only
        rw [ih]
        simp only [readResults, body, endDec_eof, List.cons_append,
          List.length_cons, padTo_cons, List.zipWith_cons_cons]

/-- nothing in `body` is `None` or a non-blocking would-block; an end-of-input report occurs only
for a mid-stream end of input (`Ev.eof`) -/
theorem body_mem (evs : List Ev) : ∀ (d : Dec) (x : RItem), x ∈ body d evs →
    x ≠ .none ∧ x ≠ .nbWouldBlock ∧ (Ev.eof ∉ evs → ∀ n, x ≠ .ioErr .eof n) ∧
      ∀ n, x = .ioErr .wouldBlock n → n = 0 := by
  induction evs with
  | nil => intro d x hx; simp [body] at hx
  | cons e evs ih =>
    intro d x hx
    have lift : ∀ d' : Dec, x ∈ body d' evs →
        x ≠ .none ∧ x ≠ .nbWouldBlock ∧ (Ev.eof ∉ e :: evs → ∀ n, x ≠ .ioErr .eof n) ∧
          ∀ n, x = .ioErr .wouldBlock n → n = 0 := fun d' hx' =>
      have h := ih d' x hx'
      ⟨h.1, h.2.1, fun hne => h.2.2.1 (fun hc => hne (List.mem_cons_of_mem _ hc)), h.2.2.2⟩
    cases e with
    | byte b =>
      simp only [body, List.mem_append] at hx
      rcases hx with hx | hx
      · cases ho : (d.push b).2 <;> simp [ho, outItem] at hx <;> subst hx <;> simp
      · exact lift _ hx
    | wouldBlock =>
      simp only [body, List.mem_cons] at hx
      rcases hx with rfl | hx
      · simp
      · exact lift _ hx
    | interrupted => exact lift _ hx
    | other =>
      simp only [body, List.mem_cons] at hx
      rcases hx with rfl | hx
      · simp
      · exact lift _ hx
    | eof =>
      simp only [body, List.mem_cons] at hx
      rcases hx with rfl | hx
      · simp
      · exact lift _ hx

/-- `next` presents every result of `read` unchanged, except `IoErr(Eof, 0)` -/
theorem view_next_of_ne {x : RItem} (h : x ≠ .ioErr .eof 0) : view .next x = x := by
  cases x with
  | ioErr k n =>
    cases k with
    | eof =>
      cases n with
      | zero => exact absurd rfl h
      | succ n => rfl
    | wouldBlock => rfl
    | other => rfl
  | _ => rfl

/-- without a mid-stream end of input `next` presents the results of `read` unchanged.
(The hypothesis is needed: `body d [.eof]` is `[IoErr(Eof, 0)]` for a new decoder `d`, and `next`
turns that into `None`.) -/
theorem map_view_next_body (d : Dec) (evs : List Ev) (hne : Ev.eof ∉ evs) :
    (body d evs).map (view .next) = body d evs := by
  rw [List.map_congr_left, List.map_id]
  intro x hx
  exact view_next_of_ne ((body_mem evs d x hx).2.2.1 hne 0)

theorem nextBody_of_noEof (d : Dec) (evs : List Ev) (hne : Ev.eof ∉ evs) :
    nextBody d evs = body d evs := map_view_next_body d evs hne

/-- `results` in the form it has without a mid-stream end of input -/
theorem results_of_noEof (d : Dec) (evs : List Ev) (hne : Ev.eof ∉ evs) :
    results d evs = body d evs ++ eofItem (endDec d evs) := by
  unfold results; rw [nextBody_of_noEof d evs hne]

theorem nextBody_length (d : Dec) (evs : List Ev) : (nextBody d evs).length = (body d evs).length :=
  List.length_map ..

/-- `k` successive `next` calls: `results`, then `None` forever -/
theorem nexts_io (d : Dec) (evs : List Ev) (k : Nat) :
    (({ kind := .io, dec := d, evs := evs } : Rdr).calls (List.replicate k .next)).2 =
      padTo .none (results d evs) k := by
  rw [calls_eq, List.length_replicate]
  have hl : (padTo (RItem.ioErr .eof 0) (readResults d evs) k).length = k := padTo_length _ _ _
  have := zipWith_replicate_left' view Call.next (padTo (RItem.ioErr .eof 0) (readResults d evs) k)
  rw [hl] at this
  rw [this, map_padTo]
  simp only [readResults, results, nextBody, List.map_append, List.map_cons, List.map_nil,
    eofItem]
  show padTo RItem.none _ k = _
  cases h : (endDec d evs).reset.2 with
  | zero =>
    simp only [if_true]
    show padTo RItem.none ((body d evs).map (view .next) ++ [RItem.none]) k = _
    rw [padTo_snoc_self, List.append_nil]
  | succ n => simp [view]

/-- `k` successive `read` calls: `readResults`, then `Eof, 0` forever -/
theorem reads_io (d : Dec) (evs : List Ev) (k : Nat) :
    (({ kind := .io, dec := d, evs := evs } : Rdr).calls (List.replicate k .read)).2 =
      padTo (.ioErr .eof 0) (readResults d evs) k := by
  rw [calls_eq, List.length_replicate]
  have hl : (padTo (RItem.ioErr .eof 0) (readResults d evs) k).length = k := padTo_length _ _ _
  have := zipWith_replicate_left' view Call.read (padTo (RItem.ioErr .eof 0) (readResults d evs) k)
  rw [hl] at this
  rw [this]
  show List.map id _ = _
  rw [List.map_id]

/-! ### erasing would-block and interrupted events -/

/-- remove the `WouldBlock` and `Interrupted` events -/
def strip : List Ev → List Ev
  | [] => []
  | .byte b :: evs => .byte b :: strip evs
  | .wouldBlock :: evs => strip evs
  | .interrupted :: evs => strip evs
  | .other :: evs => .other :: strip evs
  | .eof :: evs => .eof :: strip evs

/-- remove the would-block results -/
def dropWB (l : List RItem) : List RItem := l.filter (· ≠ RItem.ioErr .wouldBlock 0)

theorem dropWB_append (a b : List RItem) : dropWB (a ++ b) = dropWB a ++ dropWB b :=
  List.filter_append ..

theorem opsOf_strip (evs : List Ev) : opsOf (strip evs) = opsOf evs := by
  induction evs with
  | nil => rfl
  | cons e evs ih => cases e <;> simp [strip, opsOf, ih]

theorem bytesOf_strip (evs : List Ev) : bytesOf (strip evs) = bytesOf evs := by
  induction evs with
  | nil => rfl
  | cons e evs ih => cases e <;> simp [strip, bytesOf, ih]

theorem endDec_strip (d : Dec) (evs : List Ev) : endDec d (strip evs) = endDec d evs := by
  unfold endDec; rw [opsOf_strip]

theorem dropWB_outItem (o : Out) : dropWB (outItem o) = outItem o := by
  cases o <;> simp [dropWB, outItem]

theorem dropWB_eofItem (d : Dec) : dropWB (eofItem d) = eofItem d := by
  unfold eofItem; split <;> simp [dropWB]

theorem body_strip (evs : List Ev) : ∀ d : Dec, body d (strip evs) = dropWB (body d evs) := by
  induction evs with
  | nil => intro d; rfl
  | cons e evs ih =>
    intro d
    cases e with
    | byte b => simp only [strip, body, dropWB_append, dropWB_outItem, ih]
    | wouldBlock => rw [strip, body, ih]; simp [dropWB]
    | interrupted => rw [strip, body, ih]
    | other => rw [strip, body, body, ih]; simp [dropWB]
    | eof => rw [strip, body, body, ih]; simp [dropWB]

/-- `next` relabels neither a would-block nor anything into a would-block -/
theorem view_next_eq_wb (x : RItem) :
    view .next x = .ioErr .wouldBlock 0 ↔ x = .ioErr .wouldBlock 0 := by
  cases x with
  | ioErr k n =>
    cases k with
    | eof => cases n <;> simp [view]
    | wouldBlock => simp [view]
    | other => simp [view]
  | _ => simp [view]

theorem dropWB_map_view_next (l : List RItem) :
    dropWB (l.map (view .next)) = (dropWB l).map (view .next) := by
  unfold dropWB
  rw [List.filter_map]
  congr 1
  apply List.filter_congr
  intro x _
  by_cases hx : x = .ioErr .wouldBlock 0
  · simp [hx, view]
  · have hv : view .next x ≠ .ioErr .wouldBlock 0 := fun h => hx ((view_next_eq_wb x).1 h)
    simp [hx, hv]

theorem count_wb_map_view_next (l : List RItem) :
    (l.map (view .next)).count (RItem.ioErr .wouldBlock 0) = l.count (RItem.ioErr .wouldBlock 0) := by
  induction l with
  | nil => rfl
  | cons x l ih =>
    rw [List.map_cons, List.count_cons, List.count_cons, ih]
    by_cases hx : x = .ioErr .wouldBlock 0
    · simp [hx, view]
    · have hv : view .next x ≠ .ioErr .wouldBlock 0 := fun h => hx ((view_next_eq_wb x).1 h)
      simp [hx, hv]

theorem nextBody_strip (d : Dec) (evs : List Ev) :
    nextBody d (strip evs) = dropWB (nextBody d evs) := by
  unfold nextBody; rw [body_strip, dropWB_map_view_next]

theorem results_strip (d : Dec) (evs : List Ev) :
    results d (strip evs) = dropWB (results d evs) := by
  unfold results
  rw [nextBody_strip, endDec_strip, dropWB_append, dropWB_eofItem]

theorem readResults_strip (d : Dec) (evs : List Ev) :
    readResults d (strip evs) = dropWB (readResults d evs) := by
  unfold readResults
  rw [body_strip, endDec_strip, dropWB_append]
  simp [dropWB]

theorem count_outItem (o : Out) : (outItem o).count (RItem.ioErr .wouldBlock 0) = 0 := by
  cases o <;> simp [outItem]

/-- every would-block event surfaces exactly once -/
theorem count_wb_body (evs : List Ev) : ∀ d : Dec,
    (body d evs).count (RItem.ioErr .wouldBlock 0) = evs.count .wouldBlock := by
  induction evs with
  | nil => intro d; rfl
  | cons e evs ih =>
    intro d
    cases e with
    | byte b => simp [body, List.count_append, count_outItem, ih]
    | wouldBlock => simp [body, ih]
    | interrupted => simp [body, ih]
    | other => simp [body, ih]
    | eof => simp [body, ih]

theorem count_wb_results (d : Dec) (evs : List Ev) :
    (results d evs).count (RItem.ioErr .wouldBlock 0) = evs.count .wouldBlock := by
  unfold results eofItem nextBody
  rw [List.count_append, count_wb_map_view_next, count_wb_body]
  split <;> simp

/-- what `next` never returns: a non-blocking would-block, `IoErr(Eof, 0)`, a would-block with a
count; and `None` only for a mid-stream end of input -/
theorem nextBody_mem (d : Dec) (evs : List Ev) (x : RItem) (hx : x ∈ nextBody d evs) :
    (Ev.eof ∉ evs → x ≠ .none) ∧ x ≠ .nbWouldBlock ∧ x ≠ .ioErr .eof 0 ∧
      (Ev.eof ∉ evs → ∀ n, x ≠ .ioErr .eof n) ∧ ∀ n, x = .ioErr .wouldBlock n → n = 0 := by
  unfold nextBody at hx
  obtain ⟨y, hy, rfl⟩ := List.mem_map.1 hx
  have hm := body_mem evs d y hy
  refine ⟨fun hne => ?_, ?_, ?_, fun hne => ?_, ?_⟩
  · rw [view_next_of_ne (hm.2.2.1 hne 0)]; exact hm.1
  · cases y with
    | ioErr k n =>
      cases k with
      | eof => cases n <;> simp [view]
      | wouldBlock => simp [view]
      | other => simp [view]
    | nbWouldBlock => exact absurd rfl hm.2.1
    | _ => simp [view]
  · cases y with
    | ioErr k n =>
      cases k with
      | eof => cases n <;> simp [view]
      | wouldBlock => simp [view]
      | other => simp [view]
    | _ => simp [view]
  · rw [view_next_of_ne (hm.2.2.1 hne 0)]; exact hm.2.2.1 hne
  · intro n hn
    have : y = .ioErr .wouldBlock n := by
      cases y with
      | ioErr k m =>
        cases k with
        | eof => cases m <;> simp [view] at hn
        | wouldBlock => simpa [view] using hn
        | other => simp [view] at hn
      | _ => simp [view] at hn
    exact hm.2.2.2 n this

theorem results_mem (d : Dec) (evs : List Ev) (x : RItem) (hx : x ∈ results d evs) :
    (Ev.eof ∉ evs → x ≠ .none) ∧ x ≠ .nbWouldBlock ∧ x ≠ .ioErr .eof 0 ∧
      ∀ n, x = .ioErr .wouldBlock n → n = 0 := by
  unfold results eofItem at hx
  rcases List.mem_append.1 hx with hx | hx
  · have := nextBody_mem d evs x hx
    exact ⟨this.1, this.2.1, this.2.2.1, this.2.2.2.2⟩
  · split at hx
    · simp at hx
    · next h0 =>
      simp only [List.mem_singleton] at hx
      subst hx
      refine ⟨by simp, by simp, ?_, by simp⟩
      intro hc
      injection hc with _ hc
      exact h0 hc

/-- a `None` among the results of `next` (before the final ones) stems from a mid-stream end of
input: there are at most as many as `Ev.eof` events -/
theorem count_none_body (evs : List Ev) : ∀ d : Dec,
    (nextBody d evs).count RItem.none ≤ evs.count .eof := by
  induction evs with
  | nil => intro d; simp [nextBody, body]
  | cons e evs ih =>
    intro d
    cases e with
    | byte b =>
      have := ih (d.push b).1
      have h0 : ((outItem (d.push b).2).map (view .next)).count RItem.none = 0 := by
        cases (d.push b).2 <;> simp [outItem, view]
      simp only [nextBody, body, List.map_append, List.count_append] at this ⊢
      simp only [h0, Nat.zero_add]
      simpa using this
    | wouldBlock =>
      have := ih d
      simp only [nextBody, body, List.map_cons] at this ⊢
      simpa [view] using this
    | interrupted =>
      have := ih d
      simp only [nextBody, body] at this ⊢
      simpa using this
    | other =>
      have := ih d.reset.1
      simp only [nextBody, body, List.map_cons] at this ⊢
      simpa [view] using this
    | eof =>
      have := ih d.reset.1
      simp only [nextBody, body, List.map_cons] at this ⊢
      rw [List.count_cons, List.count_cons_self]
      split <;> omega

theorem count_none_results (d : Dec) (evs : List Ev) :
    (results d evs).count RItem.none ≤ evs.count .eof := by
  unfold results eofItem
  rw [List.count_append]
  have := count_none_body evs d
  split <;> simp <;> omega

theorem body_length_le (evs : List Ev) : ∀ d : Dec, (body d evs).length ≤ evs.length := by
  induction evs with
  | nil => intro d; simp [body]
  | cons e evs ih =>
    intro d
    cases e with
    | byte b =>
      have := ih (d.push b).1
      have h1 : (outItem (d.push b).2).length ≤ 1 := by cases (d.push b).2 <;> simp [outItem]
      simp only [body, List.length_append, List.length_cons]
      omega
    | wouldBlock => have := ih d; simp only [body, List.length_cons]; omega
    | interrupted => have := ih d; simp only [body, List.length_cons]; omega
    | other => have := ih d.reset.1; simp only [body, List.length_cons]; omega
    | eof => have := ih d.reset.1; simp only [body, List.length_cons]; omega

theorem results_length_le (d : Dec) (evs : List Ev) : (results d evs).length ≤ evs.length + 1 := by
  have := body_length_le evs d
  unfold results eofItem
  rw [List.length_append, nextBody_length]
  split <;> simp <;> omega

theorem take_append_replicate_ge {α : Type} (A : List α) (x : α) {k m : Nat} (h : k ≤ m) :
    (A ++ List.replicate m x).take k = (A ++ List.replicate k x).take k := by
  have : List.replicate m x = List.replicate k x ++ List.replicate (m - k) x := by
    rw [List.replicate_append_replicate]; congr 1; omega
  rw [this, ← List.append_assoc, List.take_append_of_le_length (by simp)]

/-- among `k + W` calls (`W` = number of would-block results in `T`) the first `k` that are not
would-blocks are the first `k` of the sequence with the would-blocks erased -/
theorem dropWB_padTo (T : List RItem) (k : Nat) :
    (dropWB (padTo .none T (k + T.count (RItem.ioErr .wouldBlock 0)))).take k =
      padTo .none (dropWB T) k := by
  generalize hW : T.count (RItem.ioErr .wouldBlock 0) = W
  have hnp : ∀ l : List RItem, (l.filter (fun a => !decide (a ≠ RItem.ioErr .wouldBlock 0))).length
      = l.count (RItem.ioErr .wouldBlock 0) := by
    intro l
    rw [List.count_eq_countP, List.countP_eq_length_filter]
    congr 2
    funext a
    by_cases h : a = RItem.ioErr .wouldBlock 0 <;> simp [h]
  unfold padTo dropWB
  rw [take_filter_take (fun a => decide (a ≠ RItem.ioErr .wouldBlock 0)) _ k W
    (by rw [hnp, List.count_append, hW, List.count_replicate]; simp) (by simp)]
  rw [List.filter_append]
  have : (List.replicate (k + W) RItem.none).filter (fun a => decide (a ≠ RItem.ioErr .wouldBlock 0))
      = List.replicate (k + W) RItem.none := by
    rw [List.filter_eq_self]; intro a ha; rw [List.eq_of_mem_replicate ha]; simp
  rw [this, take_append_replicate_ge _ _ (Nat.le_add_right k W)]

/-! ### a would-block inside one `read` call -/

/-- events that produce no result (bytes answered `Ok(None)`, interrupts) are consumed silently -/
theorem readLoop_quiet (pre : List Ev) : ∀ (d : Dec) (rest : List Ev), body d pre = [] →
    readLoop .io d (pre ++ rest) = readLoop .io (endDec d pre) rest := by
  induction pre with
  | nil => intro d rest _; rfl
  | cons e pre ih =>
    intro d rest hq
    cases e with
    | byte b =>
      simp only [body, List.append_eq_nil_iff] at hq
      rcases read_byte_cases .io d b (pre ++ rest) with ⟨_, hr⟩ | ⟨x, hx, _⟩
      · have hr' : readLoop .io d (.byte b :: (pre ++ rest)) =
            readLoop .io (d.push b).1 (pre ++ rest) := hr
        rw [List.cons_append, hr', ih _ _ hq.2, endDec_byte]
      · rw [hq.1] at hx; cases hx
    | wouldBlock => simp [body] at hq
    | interrupted =>
      have hr' : readLoop .io d (.interrupted :: (pre ++ rest)) = readLoop .io d (pre ++ rest) :=
        read_interrupted d (pre ++ rest)
      rw [List.cons_append, hr', ih _ _ hq, endDec_interrupted]
    | other => simp [body] at hq
    | eof => simp [body] at hq

/-! ### decoders that differ in dead fields only -/

theorem push_equiv {d d' : Dec} (h : Dec.Equiv d d') (b : UInt8) :
    (d.push b).2 = (d'.push b).2 ∧ Dec.Equiv (d.push b).1 (d'.push b).1 := by
  have := Dec.step_equiv h (.push b)
  exact ⟨OpOut.out.inj this.1, this.2⟩

theorem reset_equiv {d d' : Dec} (h : Dec.Equiv d d') :
    d.reset.2 = d'.reset.2 ∧ Dec.Equiv d.reset.1 d'.reset.1 := by
  have := Dec.step_equiv h .reset
  exact ⟨OpOut.reset.inj this.1, this.2⟩

theorem body_equiv (evs : List Ev) : ∀ {d d' : Dec}, Dec.Equiv d d' → body d evs = body d' evs := by
  induction evs with
  | nil => intro d d' _; rfl
  | cons e evs ih =>
    intro d d' h
    cases e with
    | byte b =>
      have hp := push_equiv h b
      simp only [body, hp.1, ih hp.2]
    | wouldBlock => simp only [body, ih h]
    | interrupted => simp only [body, ih h]
    | other =>
      have hr := reset_equiv h
      simp only [body, hr.1, ih hr.2]
    | eof =>
      have hr := reset_equiv h
      simp only [body, hr.1, ih hr.2]

theorem endDec_equiv (evs : List Ev) {d d' : Dec} (h : Dec.Equiv d d') :
    Dec.Equiv (endDec d evs) (endDec d' evs) := (Dec.run_equiv _ h).2

theorem results_equiv (evs : List Ev) {d d' : Dec} (h : Dec.Equiv d d') :
    results d evs = results d' evs := by
  unfold results eofItem nextBody
  rw [body_equiv evs h, (reset_equiv (endDec_equiv evs h)).1]

theorem readResults_equiv (evs : List Ev) {d d' : Dec} (h : Dec.Equiv d d') :
    readResults d evs = readResults d' evs := by
  unfold readResults
  rw [body_equiv evs h, (reset_equiv (endDec_equiv evs h)).1]

/-- a decoder that has just been reset is as good as new -/
theorem reset_equiv_fresh (d : Dec) : Dec.Equiv d.reset.1 (Dec.fresh d.buf.cap) :=
  (Dec.norm_reset d).trans (Dec.norm_fresh _).symm

theorem endDec_inv (evs : List Ev) {d : Dec} (h : Dec.Inv d) : Dec.Inv (endDec d evs) :=
  Dec.run_inv _ h

theorem endDec_cap (evs : List Ev) {d : Dec} (h : Dec.Inv d) : (endDec d evs).buf.cap = d.buf.cap :=
  Dec.run_cap _ h

/-! ### cutting at an "other" error -/

theorem body_other (d : Dec) (pre post : List Ev) :
    body d (pre ++ .other :: post) =
      body d pre ++ [.ioErr .other (endDec d pre).reset.2] ++ body (endDec d pre).reset.1 post := by
  rw [body_append, body, List.append_assoc]; rfl

theorem endDec_other_split (d : Dec) (pre post : List Ev) :
    endDec d (pre ++ .other :: post) = endDec (endDec d pre).reset.1 post := by
  rw [endDec_append, endDec_other]

theorem results_other (d : Dec) (pre post : List Ev) :
    results d (pre ++ .other :: post) =
      nextBody d pre ++ [.ioErr .other (endDec d pre).reset.2] ++
        results (endDec d pre).reset.1 post := by
  unfold results nextBody
  rw [body_other, endDec_other_split]
  simp only [List.map_append, List.map_cons, List.map_nil, List.append_assoc, view]

theorem readResults_other (d : Dec) (pre post : List Ev) :
    readResults d (pre ++ .other :: post) =
      body d pre ++ [.ioErr .other (endDec d pre).reset.2] ++
        readResults (endDec d pre).reset.1 post := by
  unfold readResults
  rw [body_other, endDec_other_split]
  simp only [List.append_assoc]

/-- after the error the reader continues like a new one on the remaining events -/
theorem results_other_fresh (cap : Option Nat) (pre post : List Ev) :
    results (Dec.fresh cap) (pre ++ .other :: post) =
      nextBody (Dec.fresh cap) pre ++ [.ioErr .other (endDec (Dec.fresh cap) pre).reset.2] ++
        results (Dec.fresh cap) post := by
  rw [results_other]
  congr 1
  have hc : (endDec (Dec.fresh cap) pre).buf.cap = cap := endDec_cap pre (Dec.inv_fresh cap)
  have := reset_equiv_fresh (endDec (Dec.fresh cap) pre)
  rw [hc] at this
  exact results_equiv post this

theorem readResults_other_fresh (cap : Option Nat) (pre post : List Ev) :
    readResults (Dec.fresh cap) (pre ++ .other :: post) =
      body (Dec.fresh cap) pre ++ [.ioErr .other (endDec (Dec.fresh cap) pre).reset.2] ++
        readResults (Dec.fresh cap) post := by
  rw [readResults_other]
  congr 1
  have hc : (endDec (Dec.fresh cap) pre).buf.cap = cap := endDec_cap pre (Dec.inv_fresh cap)
  have := reset_equiv_fresh (endDec (Dec.fresh cap) pre)
  rw [hc] at this
  exact readResults_equiv post this

/-! ### cutting at a mid-stream end of input -/

theorem body_eof (d : Dec) (pre post : List Ev) :
    body d (pre ++ .eof :: post) =
      body d pre ++ [.ioErr .eof (endDec d pre).reset.2] ++ body (endDec d pre).reset.1 post := by
  rw [body_append, body, List.append_assoc]; rfl

theorem endDec_eof_split (d : Dec) (pre post : List Ev) :
    endDec d (pre ++ .eof :: post) = endDec (endDec d pre).reset.1 post := by
  rw [endDec_append, endDec_eof]

/-- what `next` returns for a mid-stream end of input with `n` bytes pending -/
def midEof (n : Nat) : RItem := if n = 0 then .none else .ioErr .eof n

theorem view_next_eof (n : Nat) : view .next (.ioErr .eof n) = midEof n := by
  cases n <;> rfl

theorem results_eof (d : Dec) (pre post : List Ev) :
    results d (pre ++ .eof :: post) =
      nextBody d pre ++ [midEof (endDec d pre).reset.2] ++
        results (endDec d pre).reset.1 post := by
  unfold results nextBody
  rw [body_eof, endDec_eof_split]
  simp only [List.map_append, List.map_cons, List.map_nil, List.append_assoc, view_next_eof]

theorem readResults_eof (d : Dec) (pre post : List Ev) :
    readResults d (pre ++ .eof :: post) =
      body d pre ++ [.ioErr .eof (endDec d pre).reset.2] ++
        readResults (endDec d pre).reset.1 post := by
  unfold readResults
  rw [body_eof, endDec_eof_split]
  simp only [List.append_assoc]

/-- after the mid-stream end of input the reader continues like a new one on the remaining
events -/
theorem results_eof_fresh (cap : Option Nat) (pre post : List Ev) :
    results (Dec.fresh cap) (pre ++ .eof :: post) =
      nextBody (Dec.fresh cap) pre ++ [midEof (endDec (Dec.fresh cap) pre).reset.2] ++
        results (Dec.fresh cap) post := by
  rw [results_eof]
  congr 1
  have hc : (endDec (Dec.fresh cap) pre).buf.cap = cap := endDec_cap pre (Dec.inv_fresh cap)
  have := reset_equiv_fresh (endDec (Dec.fresh cap) pre)
  rw [hc] at this
  exact results_equiv post this

theorem readResults_eof_fresh (cap : Option Nat) (pre post : List Ev) :
    readResults (Dec.fresh cap) (pre ++ .eof :: post) =
      body (Dec.fresh cap) pre ++ [.ioErr .eof (endDec (Dec.fresh cap) pre).reset.2] ++
        readResults (Dec.fresh cap) post := by
  rw [readResults_eof]
  congr 1
  have hc : (endDec (Dec.fresh cap) pre).buf.cap = cap := endDec_cap pre (Dec.inv_fresh cap)
  have := reset_equiv_fresh (endDec (Dec.fresh cap) pre)
  rw [hc] at this
  exact readResults_equiv post this

/-! ### sources without faults: the reference of C15 -/

theorem eof_not_mem_bytes (s : List UInt8) : Ev.eof ∉ s.map Ev.byte := by
  simp


theorem opsOf_bytes (s : List UInt8) : opsOf (s.map Ev.byte) = s.map Op.push := by
  induction s with
  | nil => rfl
  | cons b s ih => simp [opsOf, ih]

theorem endDec_bytes (s : List UInt8) (d : Dec) : endDec d (s.map Ev.byte) = (d.pushAll s).1 := by
  unfold endDec; rw [opsOf_bytes, (Dec.pushAll_eq_run s d).1]

theorem body_bytes (s : List UInt8) : ∀ d : Dec,
    body d (s.map Ev.byte) = ((d.pushAll s).2.filterMap Out.toItem?).map Item.toR := by
  induction s with
  | nil => intro d; rfl
  | cons b s ih =>
    intro d
    rw [List.map_cons, body, ih, Dec.pushAll_cons]
    simp only
    cases (d.push b).2 with
    | none => rw [List.filterMap_cons_none rfl]; rfl
    | msg m => rw [List.filterMap_cons_some (f := Out.toItem?) (b := Item.ok m) rfl]; rfl
    | err e => rw [List.filterMap_cons_some (f := Out.toItem?) (b := Item.err e) rfl]; rfl
    | panic t => rw [List.filterMap_cons_some (f := Out.toItem?) (b := Item.panic t) rfl]; rfl

theorem eofItem_eq_rEnd {d : Dec} (h : Dec.Inv d) : eofItem d = d.rEnd := by
  unfold eofItem Dec.rEnd
  rw [Dec.finalize_eq_reset h]
  split <;> simp_all

theorem results_bytes (s : List UInt8) {d : Dec} (h : Dec.Inv d) :
    results d (s.map Ev.byte) = d.allRItems s := by
  rw [results_of_noEof _ _ (eof_not_mem_bytes s)]
  unfold Dec.allRItems
  rw [body_bytes, endDec_bytes, eofItem_eq_rEnd (Dec.pushAll_inv s h)]

/-- without "other" errors and mid-stream ends of input (both reset the decoder and are kept by
`strip`), erasing would-blocks and interrupts leaves the bytes -/
theorem strip_eq_bytes (evs : List Ev) (h : Ev.other ∉ evs) (h' : Ev.eof ∉ evs) :
    strip evs = (bytesOf evs).map Ev.byte := by
  induction evs with
  | nil => rfl
  | cons e evs ih =>
    have ih := ih (fun hc => h (List.mem_cons_of_mem _ hc)) (fun hc => h' (List.mem_cons_of_mem _ hc))
    cases e with
    | byte b => simp [strip, bytesOf, ih]
    | wouldBlock => simp [strip, bytesOf, ih]
    | interrupted => simp [strip, bytesOf, ih]
    | other => exact absurd List.mem_cons_self h
    | eof => exact absurd List.mem_cons_self h'

/-! ### end of input -/

/-- nothing is pending: no byte since the last boundary -/
theorem reset_eq_zero_iff {d : Dec} (h : Dec.Inv d) :
    d.reset.2 = 0 ↔ d.st = .done ∨ d.st = .look 0 0 := by
  have hraw := h.raw_ge
  have hl := fun disc init => h.look (disc := disc) (init := init)
  rcases d with ⟨raw, crc, st, zc, buf⟩
  cases st with
  | look disc init =>
    have := hl disc init rfl
    simp only at this
    simp only [Dec.reset, this.2.2.2]
    constructor
    · intro h0; right; congr 1 <;> omega
    · rintro (h1 | h1)
      · cases h1
      · injection h1 with h1 h2; omega
  | normal => have := hraw (by simp); simp only at this; simp [Dec.reset]; omega
  | escChars n => have := hraw (by simp); simp only at this; simp [Dec.reset]; omega
  | escPayload step q => have := hraw (by simp); simp only at this; simp [Dec.reset]; omega
  | done => simp [Dec.reset]

theorem finalize_none_iff {d : Dec} (h : Dec.Inv d) : d.finalize.2 = none ↔ d.reset.2 = 0 := by
  rw [Dec.finalize_eq_reset h]
  split <;> simp_all

theorem reads_exhausted {kind : SrcKind} (hk : kind ≠ .eh) (k : Nat) {d : Dec}
    (h : Dec.IsReset d) :
    (({ kind := kind, dec := d, evs := [] } : Rdr).calls (List.replicate k .read)).2 =
      List.replicate k (.ioErr .eof 0) := by
  rw [calls_exhausted hk _ h, List.map_replicate]
  rfl

end RF

end Sml

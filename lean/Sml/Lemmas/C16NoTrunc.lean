import Sml.Lemmas.C16Next
import Sml.Props.C02
/-
  Property C16, "never a shortened or altered payload" (review item M3).

  `C16.too_small` only says that the FIRST answer which is not `Ok(None)` is `Err(OutOfMemory)`.
  Here: whatever is delivered LATER - while the rest of the oversized frame and anything after it
  is still being fed - is an intact canonical frame that lies entirely AFTER the byte at which
  the error was reported, and its payload fits the buffer.  In particular it is never `p` itself,
  never a prefix of `p`, never something assembled from bytes received before the error.

  * `msg_fits`             : every delivered payload fits the buffer of the decoder that delivers it;
  * `state_after_err`      : after an `InvalidMessage` / `InvalidEsc` / `OutOfMemory` answer the
                             decoder is reset;
  * `msg_after_err`        : (any decoder state satisfying the invariant, any stream) a payload
                             delivered after such an error at index `i` is the payload of a
                             canonical frame whose first byte has index `≥ i + 1`;
  * `too_small_no_truncation` : the statement for `frame p ++ rest`, `N < |p|`;
  * `too_small_idle`       : `too_small` for a decoder with any idle history (`C08.Idle`) and
                             start-free noise in front of the frame;
  * `too_small_no_truncation_idle` : the no-truncation statement in that generality.
-/
namespace Sml.C16

open Spec (frame)
open C07 (fitsCap)
open C08 (StartFree Idle)

/-! ### 1. a delivered payload fits the buffer -/

theorem push_msg_fits {d : Dec} (h : Dec.Inv d) {b : UInt8} {m : List UInt8}
    (hm : (d.push b).2 = Out.msg m) : fitsCap d.buf.cap m.length := by
  have hinv := Dec.push_inv h b
  have hcap := Dec.push_cap h b
  rw [Dec.push_eq] at hm
  simp only at hm
  cases hr : (d.pushByte b).2 with
  | more => rw [hr] at hm; cases hm
  | err e => rw [hr] at hm; cases hm
  | panic s => rw [hr] at hm; cases hm
  | ready =>
    rw [hr] at hm
    simp only [Out.msg.injEq] at hm
    have hwf := hinv.wf
    rw [Dec.push_fst] at hwf hcap
    rw [← hm, ← hcap]
    simpa [Buf.WF, Buf.len, Buf.data] using hwf

/-- every payload a decoder delivers fits its buffer -/
theorem msg_fits (s : List UInt8) : ∀ {d : Dec}, Dec.Inv d → ∀ (j : Nat) (m : List UInt8),
    (Dec.pushAll d s).2[j]? = some (Out.msg m) → fitsCap d.buf.cap m.length := by
  induction s with
  | nil => intro d _ j m h; simp [Dec.pushAll_nil] at h
  | cons b bs ih =>
    intro d hd j m h
    rw [Dec.pushAll_cons] at h
    cases j with
    | zero =>
      simp only [List.getElem?_cons_zero, Option.some.injEq] at h
      exact push_msg_fits hd h
    | succ j =>
      simp only [List.getElem?_cons_succ] at h
      have := ih (Dec.push_inv hd b) j m h
      rwa [Dec.push_cap hd b] at this

/-! ### 2. after an error other than `DiscardedBytes` the decoder is reset -/

theorem push_err_isReset {d : Dec} {b : UInt8} {e : DecErr} (he : ∀ n, e ≠ .discarded n)
    (h : (d.push b).2 = Out.err e) : Dec.IsReset (d.push b).1 := by
  rw [Dec.push_eq] at h
  simp only at h
  rw [Dec.push_fst]
  rcases hp : d.pushByte b with ⟨d', r⟩
  rw [hp] at h
  simp only at h ⊢
  cases r with
  | more => cases h
  | ready => cases h
  | panic s => cases h
  | err e' =>
    simp only [Out.err.injEq] at h
    subst h
    exact Dec.pushByte_err hp he

/-- the state right after the answer number `i`, if that is an error other than `DiscardedBytes` -/
theorem state_after_err (s : List UInt8) : ∀ (d : Dec) (i : Nat) (e : DecErr),
    (∀ n, e ≠ .discarded n) → (Dec.pushAll d s).2[i]? = some (Out.err e) →
    Dec.IsReset (Dec.pushAll d (s.take (i + 1))).1 := by
  induction s with
  | nil => intro d i e _ h; simp [Dec.pushAll_nil] at h
  | cons b bs ih =>
    intro d i e he h
    rw [Dec.pushAll_cons] at h
    cases i with
    | zero =>
      simp only [List.getElem?_cons_zero, Option.some.injEq] at h
      simpa [Dec.pushAll_cons, Dec.pushAll_nil] using push_err_isReset he h
    | succ i =>
      simp only [List.getElem?_cons_succ] at h
      rw [List.take_succ_cons, Dec.pushAll_cons]
      exact ih _ i e he h

theorem sinv_of_isReset {d : Dec} (h : Dec.IsReset d) : Dec.SInv [] d := by
  obtain ⟨h1, _, h3, h4⟩ := h
  show Dec.SI [] d d.st
  rw [h1]
  exact ⟨by omega, h4, h3, [], rfl⟩

/-! ### 3. what is delivered after an error lies entirely after it -/

/-- the answers from index `k` on are the answers of the state after `k` bytes to the rest -/
theorem getElem?_pushAll_add (d : Dec) (s : List UInt8) (k j : Nat) :
    (Dec.pushAll d s).2[k + j]? = (Dec.pushAll (Dec.pushAll d (s.take k)).1 (s.drop k)).2[j]? := by
  rcases Nat.lt_or_ge s.length k with hk | hk
  · rw [List.drop_of_length_le (by omega), Dec.pushAll_nil]
    simp only [List.getElem?_nil]
    exact List.getElem?_eq_none (by rw [Dec.pushAll_length]; omega)
  · conv => lhs; rw [← List.take_append_drop k s, Dec.pushAll_append]
    simp only
    rw [List.getElem?_append_right (by rw [Dec.pushAll_length, List.length_take]; omega)]
    congr 1
    rw [Dec.pushAll_length, List.length_take]
    omega

/-- Any decoder state (satisfying the invariant), any stream: if answer `i` is `InvalidMessage`,
`InvalidEsc` or `OutOfMemory` and a later answer `j` delivers `m`, then `frame m` ends with byte
`j` and begins after byte `i` (`i + 1 ≤ |pre|`), and `m` fits the buffer. -/
theorem msg_after_err {d : Dec} (hd : Dec.Inv d) (s : List UInt8) (i j : Nat) (e : DecErr)
    (m : List UInt8) (he : ∀ n, e ≠ .discarded n)
    (hi : (Dec.pushAll d s).2[i]? = some (Out.err e))
    (hj : (Dec.pushAll d s).2[j]? = some (Out.msg m)) (hij : i < j) :
    ∃ pre, s.take (j + 1) = pre ++ frame m ∧ i + 1 ≤ pre.length ∧ fitsCap d.buf.cap m.length := by
  have hil : i < s.length := by
    have := (List.getElem?_eq_some_iff.1 hi).1
    rwa [Dec.pushAll_length] at this
  have hreset := state_after_err s d i e he hi
  obtain ⟨t, rfl⟩ : ∃ t, j = (i + 1) + t := ⟨j - (i + 1), by omega⟩
  have hj' := hj
  rw [getElem?_pushAll_add] at hj'
  obtain ⟨pre', hp⟩ := Dec.sound_pushAll (s.drop (i + 1)) t (sinv_of_isReset hreset) hj'
  rw [List.nil_append] at hp
  refine ⟨s.take (i + 1) ++ pre', ?_, ?_, msg_fits s hd _ m hj⟩
  · rw [List.append_assoc, ← hp, show i + 1 + t + 1 = (i + 1) + (t + 1) by omega, List.take_add]
  · rw [List.length_append, List.length_take]
    omega

/-- reading off single answers from a known prefix of the answer list -/
theorem getElem?_of_take_eq {α : Type} {l pre : List α} {n : Nat} (h : l.take n = pre) (k : Nat)
    (hk : k < pre.length) : l[k]? = pre[k]? := by
  subst h
  rw [List.length_take] at hk
  rw [List.getElem?_take_of_lt (by omega)]

theorem getElem?_snoc_eq {α : Type} (l : List α) (x : α) (k : Nat) (h : l.length = k) :
    (l ++ [x])[k]? = some x := by
  subst h; simp

/-! ### 4. the oversized frame -/

/-- Capacity `N < |p|`, the frame of `p`, then anything (`rest`).  `i` is the index of the
`Err(OutOfMemory)` answer of `too_small` (unique by `oom_index_unique`).  Every payload `m`
delivered by any later byte `j` is the payload of a canonical frame `frame m` that ends at byte `j`
and lies entirely after the byte `i` that reported the error; `|m| ≤ N < |p|`, so `m ≠ p`; and no
payload is delivered at or before byte `i`. -/
theorem too_small_no_truncation (p : List UInt8) (N : Nat) (h : N < p.length) :
    ∃ i, i < (frame p).length ∧
      (Dec.pushAll (Dec.fresh (some N)) ((frame p).take (i + 1))).2 =
        List.replicate i Out.none ++ [Out.err DecErr.oom] ∧
      ∀ (rest : List UInt8) (j : Nat) (m : List UInt8),
        (Dec.pushAll (Dec.fresh (some N)) (frame p ++ rest)).2[j]? = some (Out.msg m) →
        i < j ∧ m.length ≤ N ∧ m ≠ p ∧
          ∃ pre, (frame p ++ rest).take (j + 1) = pre ++ frame m ∧ i + 1 ≤ pre.length := by
  obtain ⟨i, hi, h1, _⟩ := too_small p N h
  refine ⟨i, hi, h1, fun rest j m hm => ?_⟩
  have htake : (Dec.pushAll (Dec.fresh (some N)) (frame p ++ rest)).2.take (i + 1) =
      List.replicate i Out.none ++ [Out.err DecErr.oom] := by
    rw [← pushAll_take, List.take_append_of_le_length (by omega), h1]
  have hlen : i + 1 ≤ (Dec.pushAll (Dec.fresh (some N)) (frame p ++ rest)).2.length := by
    rw [Dec.pushAll_length, List.length_append]; omega
  -- answer `i` is the error, the answers before it are `Ok(None)`
  have hi' : (Dec.pushAll (Dec.fresh (some N)) (frame p ++ rest)).2[i]? =
      some (Out.err DecErr.oom) := by
    rw [getElem?_of_take_eq htake i (by simp), List.getElem?_append_right (by simp)]
    simp
  have hij : i < j := by
    rcases Nat.lt_or_ge i j with hlt | hge
    · exact hlt
    · exfalso
      have := getElem?_of_take_eq htake j (by simp; omega)
      rw [hm] at this
      have hmem := List.mem_of_getElem? this.symm
      simp at hmem
  obtain ⟨pre, hp, hpl, hfit⟩ := msg_after_err (Dec.inv_fresh (some N)) (frame p ++ rest) i j
    DecErr.oom m (by intro n hc; cases hc) hi' hm hij
  have hmN : m.length ≤ N := hfit
  refine ⟨hij, hmN, ?_, pre, hp, hpl⟩
  rintro rfl
  omega

/-! ### 5. idle history and noise in front of the oversized frame -/

/-- the out-of-memory error cannot come while the start sequence is being matched -/
theorem oom_index_ge8 (p : List UInt8) (cap : Option Nat) (i : Nat)
    (h1 : (Dec.pushAll (Dec.fresh cap) ((frame p).take (i + 1))).2 =
      List.replicate i Out.none ++ [Out.err DecErr.oom]) : 8 ≤ i := by
  rcases Nat.lt_or_ge i 8 with hlt | hge
  · exfalso
    have h8 := start_decodes (Dec.fresh cap) rfl
    have hst : ((frame p).take (i + 1)) = START.take (i + 1) := by
      rw [Dec.frame_eq_START_drop8, List.take_append_of_le_length (by simp [START]; omega)]
    rw [hst, pushAll_take, h8] at h1
    have hmem : Out.err DecErr.oom ∈ (List.replicate 8 Out.none).take (i + 1) := by
      rw [h1]; simp
    have := List.mem_of_mem_take hmem
    simp at this
  · exact hge

/-- `too_small` for a decoder with any idle history and start-free noise `g` in front: silence,
the noise report at the last byte of the start sequence (if `g ≠ []`), silence, and at byte `i` of
the frame `Err(OutOfMemory)`; the decoder is then reset.  (`8 ≤ i`: the error comes after the start
sequence.) -/
theorem too_small_idle (N : Nat) (ops : List Op) (hidle : Idle (some N) ops) (g p : List UInt8)
    (hg : StartFree g) (h : N < p.length) :
    ∃ i, 8 ≤ i ∧ i < (frame p).length ∧
      (Dec.pushAll (Dec.run (Dec.fresh (some N)) ops).1 (g ++ (frame p).take (i + 1))).2 =
        List.replicate (g.length + 7) Out.none ++
          [if g = [] then Out.none else Out.err (.discarded g.length)] ++
          List.replicate (i - 8) Out.none ++ [Out.err DecErr.oom] ∧
      let d := (Dec.pushAll (Dec.run (Dec.fresh (some N)) ops).1 (g ++ (frame p).take (i + 1))).1
      d.st = .look 0 0 ∧ d.raw = 0 ∧ d.zc = 0 ∧ d.buf.rdata = [] ∧ d.buf.cap = some N := by
  obtain ⟨i, hi, h1, _⟩ := too_small p N h
  have h8 := oom_index_ge8 p (some N) i h1
  have hsplit : (frame p).take (i + 1) = START ++ ((frame p).drop 8).take (i - 7) := by
    conv => lhs; rw [Dec.frame_eq_START_drop8]
    rw [List.take_append, List.take_of_length_le (by simp [START]; omega)]
    congr 2
  -- the part after the start sequence, from the post-START state
  have hs := start_decodes (Dec.fresh (some N)) rfl
  have htail : (Dec.pushAll { Dec.fresh (some N) with st := .normal, raw := 8, crc := startCrc }
      (((frame p).drop 8).take (i - 7))).2 = List.replicate (i - 8) Out.none ++ [Out.err .oom] := by
    rw [hsplit, Dec.pushAll_append, hs] at h1
    simp only at h1
    have e : List.replicate i Out.none = List.replicate 8 Out.none ++ List.replicate (i - 8) Out.none := by
      rw [List.replicate_append_replicate]; congr 1; omega
    rw [e, List.append_assoc] at h1
    exact List.append_cancel_left h1
  have hns := Resync.noise_start (Dec.fresh (some N)) rfl g hg
  have hout : (Dec.pushAll (Dec.fresh (some N)) (g ++ (frame p).take (i + 1))).2 =
      List.replicate (g.length + 7) Out.none ++
        [if g = [] then Out.none else Out.err (.discarded g.length)] ++
        List.replicate (i - 8) Out.none ++ [Out.err DecErr.oom] := by
    rw [hsplit, ← List.append_assoc, Dec.pushAll_append, hns]
    simp only
    rw [htail]
    simp only [List.append_assoc]
  have hout' := (Resync.pushAll_after_idle (some N) ops hidle (g ++ (frame p).take (i + 1))).trans hout
  refine ⟨i, h8, hi, hout', ?_⟩
  -- the state: the last answer is the error
  have hinv : Dec.Inv (Dec.run (Dec.fresh (some N)) ops).1 := Dec.run_inv ops (Dec.inv_fresh _)
  have hcap : (Dec.run (Dec.fresh (some N)) ops).1.buf.cap = some N :=
    Dec.run_cap ops (Dec.inv_fresh _)
  have hl : (g ++ (frame p).take (i + 1)).length = g.length + i + 1 := by
    rw [List.length_append, List.length_take]; omega
  have hidx : (Dec.pushAll (Dec.run (Dec.fresh (some N)) ops).1
      (g ++ (frame p).take (i + 1))).2[g.length + i]? = some (Out.err .oom) := by
    rw [hout']
    exact getElem?_snoc_eq _ _ _ (by simp; omega)
  have hr := state_after_err _ _ _ _ (by intro n hc; cases hc) hidx
  have ht : (g ++ (frame p).take (i + 1)).take (g.length + i + 1) = g ++ (frame p).take (i + 1) :=
    List.take_of_length_le (by omega)
  rw [ht] at hr
  obtain ⟨r1, r2, r3, r4⟩ := hr
  exact ⟨r1, r2, r3, r4, (Dec.pushAll_cap _ hinv).trans hcap⟩

/-- The no-truncation statement in that generality: any idle history, start-free noise `g`, the
oversized frame, then anything.  With `i` as in `too_small_idle` the error is answer number
`|g| + i`; every payload delivered later is the payload of a canonical frame lying entirely after
that byte, and fits the buffer; nothing is delivered at or before it. -/
theorem too_small_no_truncation_idle (N : Nat) (ops : List Op) (hidle : Idle (some N) ops)
    (g p : List UInt8) (hg : StartFree g) (h : N < p.length) :
    ∃ i, 8 ≤ i ∧ i < (frame p).length ∧
      (Dec.pushAll (Dec.run (Dec.fresh (some N)) ops).1 (g ++ (frame p).take (i + 1))).2 =
        List.replicate (g.length + 7) Out.none ++
          [if g = [] then Out.none else Out.err (.discarded g.length)] ++
          List.replicate (i - 8) Out.none ++ [Out.err DecErr.oom] ∧
      ∀ (rest : List UInt8) (j : Nat) (m : List UInt8),
        (Dec.pushAll (Dec.run (Dec.fresh (some N)) ops).1 (g ++ frame p ++ rest)).2[j]? =
          some (Out.msg m) →
        g.length + i < j ∧ m.length ≤ N ∧ m ≠ p ∧
          ∃ pre, (g ++ frame p ++ rest).take (j + 1) = pre ++ frame m ∧
            g.length + i + 1 ≤ pre.length := by
  obtain ⟨i, h8, hi, hout, _⟩ := too_small_idle N ops hidle g p hg h
  refine ⟨i, h8, hi, hout, fun rest j m hm => ?_⟩
  have hinv : Dec.Inv (Dec.run (Dec.fresh (some N)) ops).1 := Dec.run_inv ops (Dec.inv_fresh _)
  have hcap : (Dec.run (Dec.fresh (some N)) ops).1.buf.cap = some N :=
    Dec.run_cap ops (Dec.inv_fresh _)
  have hpre : (g ++ frame p ++ rest).take (g.length + i + 1) = g ++ (frame p).take (i + 1) := by
    rw [List.append_assoc, List.take_append, List.take_of_length_le (by omega)]
    congr 1
    rw [List.take_append_of_le_length (by omega)]
    congr 1
    omega
  have htake : (Dec.pushAll (Dec.run (Dec.fresh (some N)) ops).1 (g ++ frame p ++ rest)).2.take
      (g.length + i + 1) = List.replicate (g.length + 7) Out.none ++
          [if g = [] then Out.none else Out.err (.discarded g.length)] ++
          List.replicate (i - 8) Out.none ++ [Out.err DecErr.oom] := by
    rw [← pushAll_take, hpre, hout]
  have hlen : g.length + i + 1 ≤
      (Dec.pushAll (Dec.run (Dec.fresh (some N)) ops).1 (g ++ frame p ++ rest)).2.length := by
    rw [Dec.pushAll_length]; simp only [List.length_append]; omega
  have hi' : (Dec.pushAll (Dec.run (Dec.fresh (some N)) ops).1 (g ++ frame p ++ rest)).2[g.length + i]? =
      some (Out.err DecErr.oom) := by
    rw [getElem?_of_take_eq htake (g.length + i) (by simp; omega)]
    exact getElem?_snoc_eq _ _ _ (by simp; omega)
  have hij : g.length + i < j := by
    rcases Nat.lt_or_ge (g.length + i) j with hlt | hge
    · exact hlt
    · exfalso
      have hmem : Out.msg m ∈ List.replicate (g.length + 7) Out.none ++
          [if g = [] then Out.none else Out.err (.discarded g.length)] ++
          List.replicate (i - 8) Out.none ++ [Out.err DecErr.oom] := by
        have := getElem?_of_take_eq htake j (by simp; omega)
        rw [hm] at this
        exact List.mem_of_getElem? this.symm
      simp only [List.mem_append, List.mem_replicate, List.mem_singleton, reduceCtorEq, and_false,
        or_false, false_or] at hmem
      split at hmem <;> cases hmem
  obtain ⟨pre, hp, hpl, hfit⟩ := msg_after_err hinv (g ++ frame p ++ rest) (g.length + i) j
    DecErr.oom m (by intro n hc; cases hc) hi' hm hij
  rw [hcap] at hfit
  have hmN : m.length ≤ N := hfit
  refine ⟨hij, hmN, ?_, pre, hp, hpl⟩
  rintro rfl
  omega

/-! ### 6. non-vacuity (kernel evaluation) -/

/-- `p = 01 02 1b1b1b1b 01010101` in an `ArrayBuf<1>` (the counterexample of `C16Next`): the error
comes at byte 9; the rest of the oversized frame contains a start sequence, and the frame `09`
that follows is delivered at byte 51 ... -/
example : (Dec.pushAll (Dec.fresh (some 1))
      (frame [1, 2, 0x1b, 0x1b, 0x1b, 0x1b, 1, 1, 1, 1] ++ frame [9])).2[51]? =
    some (Out.msg [9]) := by decide +kernel

/-- ... as the theorem says: it is `frame [9]`, and it begins (byte 32) after the error -/
example : (frame [1, 2, 0x1b, 0x1b, 0x1b, 0x1b, 1, 1, 1, 1] ++ frame [9]).take 52 =
    frame [1, 2, 0x1b, 0x1b, 0x1b, 0x1b, 1, 1, 1, 1] ++ frame [9] ∧
    (frame [1, 2, 0x1b, 0x1b, 0x1b, 0x1b, 1, 1, 1, 1]).length = 32 := by decide +kernel

/-- idle history + noise: a delivered frame, then noise `1b`, then the oversized frame -/
example : (Dec.pushAll (Dec.run (Dec.fresh (some 2)) ((frame [7]).map Op.push)).1
      ([0x1b] ++ (frame [1, 2, 3]).take 11)).2 =
    List.replicate 8 Out.none ++ [Out.err (.discarded 1)] ++ List.replicate 2 Out.none ++
      [Out.err .oom] := by decide +kernel

end Sml.C16

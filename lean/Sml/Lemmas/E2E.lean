import Sml.Model.SmlReader
import Sml.Props.C08
import Sml.Props.C11
import Sml.Props.C15
import Sml.Props.C09
/-
  Helper lemmas for C10 (end to end: noise / frame / noise / frame ... / trailing noise through
  the transport decoder, the reader front-ends and the `SmlReader` target adapters).

  1. decoders that are `Dec.Equiv` to a new one answer byte strings and `finalize` / `reset` alike;
  2. one segment `g ++ frame p` (C08), a sequence of segments (induction, the decoder is `Done`,
     hence as good as new, after every segment), trailing noise (`Resync.look_quiet`);
  3. all four entry points over a fault-free slice / iterator / `io::Read` source (`calls_bytes`,
     the `SrcKind.mem` counterpart of `RF.calls_eq`);
  4. `SmlReader` = reader call, then target adapter (`smlCalls_eq`).
-/
namespace Sml
namespace E2E

open Spec (frame)
open C07 (fitsCap)
open C08 (StartFree)
open RF (view)

/-! ### list helpers -/

theorem filterMap_replicate_none (n : Nat) :
    (List.replicate n Out.none).filterMap Out.toItem? = [] := by
  induction n with
  | zero => rfl
  | succ n ih => rw [List.replicate_succ, List.filterMap_cons_none rfl, ih]

theorem zipWith_replicate_left {α β γ : Type} (f : α → β → γ) (a : α) (l : List β) (n : Nat)
    (h : l.length = n) : List.zipWith f (List.replicate n a) l = l.map (f a) := by
  subst h
  exact zipWith_replicate_left' f a l

theorem zipWith_zipWith_map {α β γ δ ε : Type} (f : α → γ → ε) (g : β → δ → γ) (p : α → β)
    (cs : List α) : ∀ L : List δ,
    List.zipWith f cs (List.zipWith g (cs.map p) L) =
      List.zipWith (fun c x => f c (g (p c) x)) cs L := by
  induction cs with
  | nil => intro L; rfl
  | cons c cs ih =>
    intro L
    cases L with
    | nil => rfl
    | cons x L => simp only [List.map_cons, List.zipWith_cons_cons, ih]

/-! ### 1. decoders that differ in dead fields only -/

theorem pushAll_equiv (s : List UInt8) {d d' : Dec} (h : Dec.Equiv d d') :
    (d.pushAll s).2 = (d'.pushAll s).2 ∧ Dec.Equiv (d.pushAll s).1 (d'.pushAll s).1 := by
  have hr := Dec.run_equiv (s.map Op.push) h
  rw [← (Dec.pushAll_eq_run s d).1, ← (Dec.pushAll_eq_run s d').1, ← (Dec.pushAll_eq_run s d).2,
    ← (Dec.pushAll_eq_run s d').2] at hr
  exact ⟨(List.map_inj_right (f := OpOut.out) (fun _ _ h => OpOut.out.inj h)).1 hr.1, hr.2⟩

theorem finalize_equiv {d d' : Dec} (h : Dec.Equiv d d') : d.finalize.2 = d'.finalize.2 :=
  OpOut.fin.inj (Dec.step_equiv h .fin).1

theorem reset_equiv {d d' : Dec} (h : Dec.Equiv d d') : d.reset.2 = d'.reset.2 :=
  (RF.reset_equiv h).1

/-- a decoder in state `Done` whose buffer has capacity `cap` is as good as new -/
theorem equiv_fresh_of_done {d : Dec} {cap : Option Nat} (hst : d.st = .done)
    (hcap : d.buf.cap = cap) : Dec.Equiv d (Dec.fresh cap) := by
  show d.norm = (Dec.fresh cap).norm
  rw [Dec.norm_of_done hst, hcap, Dec.norm_fresh]

/-! ### 2. segments `noise ++ frame`, then trailing noise -/

/-- `g₁ ++ frame p₁ ++ … ++ g_k ++ frame p_k` -/
def frames (gs : List (List UInt8 × List UInt8)) : List UInt8 :=
  gs.flatMap fun gp => gp.1 ++ frame gp.2

/-- what the push decoder reports for one segment -/
def segItems (gp : List UInt8 × List UInt8) : List Item :=
  (if gp.1 = [] then [] else [Item.err (.discarded gp.1.length)]) ++ [Item.ok gp.2]

theorem frames_cons (gp : List UInt8 × List UInt8) (gs : List (List UInt8 × List UInt8)) :
    frames (gp :: gs) = (gp.1 ++ frame gp.2) ++ frames gs := by
  simp [frames]

/-- one segment, new decoder: the noise length (if any), then the payload; the decoder is then as
good as new again -/
theorem segment (cap : Option Nat) (g p : List UInt8) (hg : StartFree g)
    (hp : fitsCap cap p.length) :
    C15.items (Dec.pushAll (Dec.fresh cap) (g ++ frame p)).2 = segItems (g, p) ∧
      Dec.Equiv (Dec.pushAll (Dec.fresh cap) (g ++ frame p)).1 (Dec.fresh cap) := by
  refine ⟨?_, ?_⟩
  · rw [C08.noise_then_frame g p cap hg hp]
    unfold C15.items segItems
    simp only [List.filterMap_append, filterMap_replicate_none, List.nil_append]
    by_cases h0 : g = []
    · simp [h0, Out.toItem?]
    · simp [h0, Out.toItem?]
  · exact equiv_fresh_of_done (C08.noise_then_frame_state g p cap hg hp).1
      (Dec.pushAll_cap _ (Dec.inv_fresh cap))

/-- a sequence of segments, from any decoder that is as good as new -/
theorem segments (cap : Option Nat) (gs : List (List UInt8 × List UInt8))
    (hg : ∀ gp ∈ gs, StartFree gp.1 ∧ fitsCap cap gp.2.length) :
    ∀ d : Dec, Dec.Equiv d (Dec.fresh cap) →
      C15.items (d.pushAll (frames gs)).2 = gs.flatMap segItems ∧
        Dec.Equiv (d.pushAll (frames gs)).1 (Dec.fresh cap) := by
  induction gs with
  | nil => intro d hd; exact ⟨rfl, hd⟩
  | cons gp gs ih =>
    intro d hd
    obtain ⟨hgp, hfit⟩ := hg gp List.mem_cons_self
    have hseg := segment cap gp.1 gp.2 hgp hfit
    have he := pushAll_equiv (gp.1 ++ frame gp.2) hd
    have hrest := ih (fun x hx => hg x (List.mem_cons_of_mem _ hx))
      (d.pushAll (gp.1 ++ frame gp.2)).1 (he.2.trans hseg.2)
    rw [frames_cons, Dec.pushAll_append]
    refine ⟨?_, hrest.2⟩
    show C15.items (_ ++ _) = _
    unfold C15.items at hseg hrest ⊢
    rw [List.filterMap_append, he.1, hseg.1, hrest.1, List.flatMap_cons]

/-- in noise, no prefix ends with the start sequence -/
theorem startFree_prefix {t : List UInt8} (ht : StartFree t) (i : Nat) (hi : i < t.length) :
    ¬ Resync.pre 8 <+: (t.take (i + 1)).reverse ++ [] := by
  have h := Resync.free_prefix ht i (by simp only [List.length_append]; omega)
  rwa [List.take_append_of_le_length (by omega)] at h

/-- trailing noise, new decoder: no answer but `Ok(None)`; the decoder is still looking for a
start sequence and has counted the bytes -/
theorem tail_fresh (cap : Option Nat) (t : List UInt8) (ht : StartFree t) :
    ∃ disc k, disc + k = t.length ∧
      Dec.pushAll (Dec.fresh cap) t =
        ({ Dec.fresh cap with raw := t.length, st := .look disc k },
          List.replicate t.length Out.none) := by
  obtain ⟨disc, k, _, hsum, hq⟩ := Resync.look_quiet t [] (Dec.fresh cap) 0 0 Resync.tracks_nil rfl
    (startFree_prefix ht)
  refine ⟨disc, k, by omega, ?_⟩
  rw [Dec.pushAll_quiet hq]
  simp [Dec.fresh]

theorem finalize_look (d : Dec) (disc k : Nat) :
    ({ d with st := .look disc k } : Dec).finalize.2 =
      if disc + k = 0 then none else some (.discarded d.raw) := by
  cases disc with
  | zero =>
    cases k with
    | zero => rfl
    | succ k => simp [Dec.finalize]
  | succ disc => simp [Dec.finalize]

/-- trailing noise from any decoder that is as good as new: nothing is reported, `finalize`
reports the noise length (nothing for no noise), `reset` returns the noise length -/
theorem tail_any (cap : Option Nat) (t : List UInt8) (ht : StartFree t) (d : Dec)
    (hd : Dec.Equiv d (Dec.fresh cap)) :
    C15.items (d.pushAll t).2 = [] ∧
      (d.pushAll t).1.finalize.2 = (if t = [] then none else some (.discarded t.length)) ∧
      (d.pushAll t).1.reset.2 = t.length := by
  obtain ⟨disc, k, hsum, hrun⟩ := tail_fresh cap t ht
  have he := pushAll_equiv t hd
  rw [he.1, finalize_equiv he.2, reset_equiv he.2, hrun]
  refine ⟨filterMap_replicate_none _, ?_, rfl⟩
  have := finalize_look { Dec.fresh cap with raw := t.length } disc k
  simp only at this
  rw [this, hsum]
  by_cases h0 : t = []
  · simp [h0]
  · have : t.length ≠ 0 := fun h => h0 (List.length_eq_zero_iff.1 h)
    simp [h0, this]

/-- the whole stream through the push decoder -/
theorem stream_decodes (cap : Option Nat) (gs : List (List UInt8 × List UInt8))
    (tail : List UInt8) (hg : ∀ gp ∈ gs, StartFree gp.1 ∧ fitsCap cap gp.2.length)
    (ht : StartFree tail) :
    C15.items (Dec.pushAll (Dec.fresh cap) (frames gs ++ tail)).2 = gs.flatMap segItems ∧
      (Dec.pushAll (Dec.fresh cap) (frames gs ++ tail)).1.finalize.2 =
        (if tail = [] then none else some (.discarded tail.length)) ∧
      (Dec.pushAll (Dec.fresh cap) (frames gs ++ tail)).1.reset.2 = tail.length := by
  obtain ⟨h1, h2⟩ := segments cap gs hg (Dec.fresh cap) (Dec.Equiv.refl _)
  obtain ⟨h3, h4, h5⟩ := tail_any cap tail ht _ h2
  rw [Dec.pushAll_append]
  refine ⟨?_, h4, h5⟩
  show C15.items (_ ++ _) = _
  unfold C15.items at h1 h3 ⊢
  rw [List.filterMap_append, h1, h3, List.append_nil]

/-! ### 3. the four entry points over a fault-free source -/

/-- Any sequence of `read` / `next` / `read_nb` / `next_nb` calls on a reader over a slice, an
iterator or an `io::Read` that delivers the bytes `s` without faults (`RF.calls_eq` is the
statement for `io::Read` with faults). -/
theorem calls_bytes {kind : SrcKind} (hk : kind ≠ .eh) (s : List UInt8) :
    ∀ (d : Dec) (cs : List Rdr.Call),
      (({ kind := kind, dec := d, evs := s.map Ev.byte } : Rdr).calls cs).2 =
        List.zipWith view cs
          (padTo (.ioErr .eof 0)
            (((d.pushAll s).2.filterMap Out.toItem?).map Item.toR ++
              [.ioErr .eof (d.pushAll s).1.reset.2]) cs.length) := by
  induction s with
  | nil =>
    intro d cs
    cases cs with
    | nil => rfl
    | cons c cs =>
      rw [List.map_nil, Rdr.calls_cons, RF.call_eq_read, Rdr.read_nil hk]
      simp only
      rw [RF.calls_exhausted hk cs (Dec.isReset_reset d)]
      simp only [Dec.pushAll_nil, List.filterMap_nil, List.map_nil, List.nil_append,
        List.length_cons, padTo_cons, padTo_nil, List.zipWith_cons_cons]
      congr 1
      induction cs with
      | nil => rfl
      | cons c cs ih => simp [List.replicate_succ, ih]
  | cons b s ih =>
    intro d cs
    cases cs with
    | nil => rfl
    | cons c cs =>
      rw [List.map_cons]
      rcases RF.read_byte_cases kind d b (s.map Ev.byte) with ⟨hn, hr⟩ | ⟨x, hx, hr⟩
      · rw [RF.calls_congr_read hr, ih, Dec.pushAll_cons]
        simp only [hn, List.filterMap_cons_none (f := Out.toItem?) (a := Out.none) rfl]
      · rw [Rdr.calls_cons, RF.call_eq_read, hr]
        simp only
        rw [ih, Dec.pushAll_cons]
        have hx' : (((d.push b).2 :: ((d.push b).1.pushAll s).2).filterMap Out.toItem?).map Item.toR
            = x :: ((((d.push b).1.pushAll s).2.filterMap Out.toItem?).map Item.toR) := by
          cases ho : (d.push b).2 with
          | none => rw [ho] at hx; cases hx
          | msg m =>
            rw [ho] at hx
            rw [List.filterMap_cons_some (f := Out.toItem?) (b := Item.ok m) rfl]
            cases hx; rfl
          | err e =>
            rw [ho] at hx
            rw [List.filterMap_cons_some (f := Out.toItem?) (b := Item.err e) rfl]
            cases hx; rfl
          | panic t =>
            rw [ho] at hx
            rw [List.filterMap_cons_some (f := Out.toItem?) (b := Item.panic t) rfl]
            cases hx; rfl
        simp only [hx', List.cons_append, List.length_cons, padTo_cons, List.zipWith_cons_cons]

/-! ### 4. `SmlReader`: reader call, then target adapter -/

theorem smlCalls_cons (r : Rdr) (c : Rdr.Call) (t : Target) (cs : List (Rdr.Call × Target)) :
    r.smlCalls ((c, t) :: cs) =
      (((r.call c).1.smlCalls cs).1, adapt t (r.call c).2 :: ((r.call c).1.smlCalls cs).2) := rfl

/-- the results of `SmlReader` calls are the results of the `DecoderReader` calls, each passed
through the adapter of the target type chosen for that call; the reader state is the same -/
theorem smlCalls_eq (cs : List (Rdr.Call × Target)) : ∀ r : Rdr,
    (r.smlCalls cs).2 =
        List.zipWith (fun ct x => adapt ct.2 x) cs (r.calls (cs.map Prod.fst)).2 ∧
      (r.smlCalls cs).1 = (r.calls (cs.map Prod.fst)).1 := by
  induction cs with
  | nil => intro r; exact ⟨rfl, rfl⟩
  | cons ct cs ih =>
    intro r
    obtain ⟨c, t⟩ := ct
    have := ih (r.call c).1
    rw [smlCalls_cons, List.map_cons, Rdr.calls_cons]
    exact ⟨by simp only [List.zipWith_cons_cons, this.1], this.2⟩

theorem calls_length (cs : List Rdr.Call) : ∀ r : Rdr, (r.calls cs).2.length = cs.length := by
  induction cs with
  | nil => intro r; rfl
  | cons c cs ih => intro r; rw [Rdr.calls_cons]; simp [ih]

/-- `n` calls of `next::<T>` with the same target `T` -/
theorem smlCalls_next (r : Rdr) (t : Target) (n : Nat) :
    (r.smlCalls (List.replicate n (Rdr.Call.next, t))).2 =
      (r.calls (List.replicate n .next)).2.map (adapt t) := by
  rw [(smlCalls_eq _ r).1, List.map_replicate]
  exact zipWith_replicate_left _ _ _ _ (by rw [calls_length, List.length_replicate])

/-- calls of `next::<T>` with a target chosen per call -/
theorem smlCalls_next_targets (r : Rdr) (ts : List Target) :
    (r.smlCalls (ts.map fun t => (Rdr.Call.next, t))).2 =
      List.zipWith adapt ts (r.calls (List.replicate ts.length .next)).2 := by
  rw [(smlCalls_eq _ r).1, List.map_map, List.zipWith_map_left]
  have : ts.map (Prod.fst ∘ fun t => (Rdr.Call.next, t)) = List.replicate ts.length .next := by
    rw [List.eq_replicate_iff]; simp
  rw [this]

/-! ### 5. the stream `g₁ ++ frame p₁ ++ … ++ g_k ++ frame p_k ++ tail` through the reader -/

/-- what the reader delivers for the segments: per segment the noise length (if any), then the
payload -/
def delivered (gs : List (List UInt8 × List UInt8)) : List RItem :=
  gs.flatMap fun gp =>
    (if gp.1 = [] then [] else [RItem.decErr (.discarded gp.1.length)]) ++ [RItem.ok gp.2]

theorem map_toR_segItems (gs : List (List UInt8 × List UInt8)) :
    (gs.flatMap segItems).map Item.toR = delivered gs := by
  unfold delivered
  rw [List.map_flatMap]
  congr 1
  funext gp
  unfold segItems
  by_cases h0 : gp.1 = []
  · simp [h0, Item.toR]
  · simp [h0, Item.toR]

theorem new_eq (kind : SrcKind) (cap : Option Nat) (evs : List Ev) :
    Rdr.new kind cap evs = { kind := kind, dec := Dec.fresh cap, evs := evs } := rfl

theorem ne_eh {kind : SrcKind} (hk : kind = .mem ∨ kind = .io) : kind ≠ .eh := by
  rcases hk with rfl | rfl <;> simp

/-- `next`, any number of calls -/
theorem nexts_stream (kind : SrcKind) (hk : kind = .mem ∨ kind = .io) (cap : Option Nat)
    (gs : List (List UInt8 × List UInt8)) (tail : List UInt8)
    (hg : ∀ gp ∈ gs, StartFree gp.1 ∧ fitsCap cap gp.2.length) (ht : StartFree tail) (n : Nat) :
    ((Rdr.new kind cap ((frames gs ++ tail).map Ev.byte)).calls (List.replicate n .next)).2 =
      padTo RItem.none
        (delivered gs ++ (if tail = [] then [] else [RItem.ioErr .eof tail.length])) n := by
  obtain ⟨h1, h2, _⟩ := stream_decodes cap gs tail hg ht
  rw [C15.reader_eq kind hk, h1, map_toR_segItems]
  unfold C15.finalRItem
  rw [h2]
  by_cases h0 : tail = []
  · simp [h0]
  · simp [h0]

/-- all four entry points, any interleaving -/
theorem calls_stream (kind : SrcKind) (hk : kind = .mem ∨ kind = .io) (cap : Option Nat)
    (gs : List (List UInt8 × List UInt8)) (tail : List UInt8)
    (hg : ∀ gp ∈ gs, StartFree gp.1 ∧ fitsCap cap gp.2.length) (ht : StartFree tail)
    (cs : List Rdr.Call) :
    ((Rdr.new kind cap ((frames gs ++ tail).map Ev.byte)).calls cs).2 =
      List.zipWith view cs
        (padTo (RItem.ioErr .eof 0) (delivered gs ++ [RItem.ioErr .eof tail.length]) cs.length) := by
  obtain ⟨h1, _, h3⟩ := stream_decodes cap gs tail hg ht
  unfold C15.items at h1
  rw [new_eq, calls_bytes (ne_eh hk), h1, h3, map_toR_segItems]

/-- all four entry points with a target per call -/
theorem smlCalls_stream (kind : SrcKind) (hk : kind = .mem ∨ kind = .io) (cap : Option Nat)
    (gs : List (List UInt8 × List UInt8)) (tail : List UInt8)
    (hg : ∀ gp ∈ gs, StartFree gp.1 ∧ fitsCap cap gp.2.length) (ht : StartFree tail)
    (cs : List (Rdr.Call × Target)) :
    ((Rdr.new kind cap ((frames gs ++ tail).map Ev.byte)).smlCalls cs).2 =
      List.zipWith (fun ct x => adapt ct.2 (view ct.1 x)) cs
        (padTo (RItem.ioErr .eof 0) (delivered gs ++ [RItem.ioErr .eof tail.length]) cs.length) := by
  rw [(smlCalls_eq cs _).1, calls_stream kind hk cap gs tail hg ht, List.length_map]
  exact zipWith_zipWith_map (fun ct x => adapt ct.2 x) view Prod.fst cs _

theorem flatMap_congr_mem {α β : Type} {f g : α → List β} (l : List α)
    (h : ∀ x ∈ l, f x = g x) : l.flatMap f = l.flatMap g := by
  induction l with
  | nil => rfl
  | cons a l ih =>
    rw [List.flatMap_cons, List.flatMap_cons, h a List.mem_cons_self,
      ih (fun x hx => h x (List.mem_cons_of_mem _ hx))]

/-- the reader results for the segments and the tail, each through the adapter of target `t` -/
theorem map_adapt_delivered (t : Target) (gs : List (List UInt8 × List UInt8)) :
    (delivered gs).map (adapt t) =
      gs.flatMap fun gp =>
        (if gp.1 = [] then [] else [SmlItem.decErr (.discarded gp.1.length)]) ++
          [adapt t (.ok gp.2)] := by
  unfold delivered
  rw [List.map_flatMap]
  congr 1
  funext gp
  by_cases h0 : gp.1 = []
  · simp [h0]
  · simp [h0, adapt]

end E2E
end Sml

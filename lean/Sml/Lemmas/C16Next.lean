import Sml.Props.C16
import Sml.Props.C08
import Sml.Props.C14
import Sml.Props.C15
import Sml.Lemmas.DecBasic
/-
  Property C16, continuation: "... and is immediately ready for the next frame" when the REST of
  the oversized frame is still fed to the decoder (the situation on a real line: the sender does not
  stop in the middle of its frame because the receiver ran out of memory).

  `C16.too_small` : with capacity `N < |p|` the first answer that is not `Ok(None)` while feeding
  `frame p` is `Err(OutOfMemory)`, at index `i < |frame p|`, and the decoder is then in the reset
  state.  `C16.ready_after_oom` : a frame fed at that very point is delivered.

  Here: the remaining bytes `g = (frame p).drop (i + 1)` of the oversized frame are noise for the
  reset decoder.  If they are noise in the sense of C08 (`StartFree g`: no start sequence inside `g`
  or overlapping the start sequence that follows), then a following frame `frame q` with
  `|q| ≤ N` gives exactly the answers of `C08.noise_then_frame`: silence, `DiscardedBytes(|g|)` at the
  last byte of the start sequence of `frame q` (nothing if `g = []`), silence, `Ok(Some(q))`.

  The hypothesis `StartFree g` is needed (see the counterexample at the end: a payload that contains
  `1b1b1b1b 01010101` after the point of the error makes the decoder begin a transmission inside the
  rest of the oversized frame).  It is decidable; `startFree_of_no_esc01` gives a simple sufficient
  condition (the five bytes `1b 1b 1b 1b 01` do not occur in `g`), and
  `startFree_rest_of_no_1b` shows that it holds for every cut point when the payload `p` does not
  contain the byte 0x1b.

  All theorems hold for all payloads `p`, `q` and all capacities `N`.
-/
namespace Sml.C16

open Spec (frame)
open C07 (fitsCap)
open C08 (StartFree)

/-! ### 0. the index of the first non-`None` answer is unique -/

theorem pushAll_take (s : List UInt8) (d : Dec) (n : Nat) :
    (Dec.pushAll d (s.take n)).2 = (Dec.pushAll d s).2.take n := by
  induction s generalizing d n with
  | nil => simp [Dec.pushAll_nil]
  | cons b s ih =>
    cases n with
    | zero => simp [Dec.pushAll_nil]
    | succ n => rw [List.take_succ_cons, Dec.pushAll_cons, Dec.pushAll_cons, ih]; rfl

/-- The index `i` of `too_small` / `next_frame` is determined by its defining equation: it is the
position of the first answer other than `Ok(None)` in the answers to `frame p`. -/
theorem oom_index_unique (d : Dec) (s : List UInt8) (i j : Nat) (hi : i < s.length)
    (hj : j < s.length)
    (h1 : (Dec.pushAll d (s.take (i + 1))).2 = List.replicate i Out.none ++ [Out.err DecErr.oom])
    (h2 : (Dec.pushAll d (s.take (j + 1))).2 = List.replicate j Out.none ++ [Out.err DecErr.oom]) :
    i = j := by
  rw [pushAll_take] at h1 h2
  have key : ∀ a b : Nat, a < b → b < s.length →
      (Dec.pushAll d s).2.take (a + 1) = List.replicate a Out.none ++ [Out.err DecErr.oom] →
      (Dec.pushAll d s).2.take (b + 1) = List.replicate b Out.none ++ [Out.err DecErr.oom] →
      False := by
    intro a b hab hb ha hb'
    have e1 : ((Dec.pushAll d s).2.take (a + 1))[a]? = some (Out.err DecErr.oom) := by
      rw [ha, List.getElem?_append_right (by simp)]; simp
    have e2 : ((Dec.pushAll d s).2.take (b + 1))[a]? = some Out.none := by
      rw [hb', List.getElem?_append_left (by simpa using hab)]
      simp [hab]
    rw [List.getElem?_take_of_lt (by omega)] at e1 e2
    rw [e1] at e2
    cases e2
  rcases Nat.lt_trichotomy i j with h | h | h
  · exact (key i j h hj h1 h2).elim
  · exact h
  · exact (key j i h hi h2 h1).elim

/-! ### 1. the rest of the oversized frame, then the next frame -/

/-- Capacity `N < |p|`, then a frame whose payload fits.  `i` is the index of the
`Err(OutOfMemory)` answer of `too_small` (first two conjuncts; unique by `oom_index_unique`).
If the rest `g = (frame p).drop (i + 1)` of the oversized frame is noise (`StartFree`), the
answers to `frame p ++ frame q` are: `i` times `Ok(None)`, `Err(OutOfMemory)`, then the answers of
`C08.noise_then_frame` for the noise `g` and the payload `q`; the decoder ends in state `Done`
holding exactly `q`. -/
theorem next_frame (p q : List UInt8) (N : Nat) (h : N < p.length) (hq : q.length ≤ N) :
    ∃ i, i < (frame p).length ∧
      (Dec.pushAll (Dec.fresh (some N)) ((frame p).take (i + 1))).2 =
        List.replicate i Out.none ++ [Out.err DecErr.oom] ∧
      (StartFree ((frame p).drop (i + 1)) →
        (Dec.pushAll (Dec.fresh (some N)) (frame p ++ frame q)).2 =
          (List.replicate i Out.none ++ [Out.err DecErr.oom]) ++
            (List.replicate (((frame p).drop (i + 1)).length + 7) Out.none ++
              [if (frame p).drop (i + 1) = [] then Out.none
                else Out.err (.discarded ((frame p).drop (i + 1)).length)] ++
              List.replicate ((frame q).length - 9) Out.none ++ [Out.msg q]) ∧
        (Dec.pushAll (Dec.fresh (some N)) (frame p ++ frame q)).1.st = .done ∧
        (Dec.pushAll (Dec.fresh (some N)) (frame p ++ frame q)).1.buf.data = q) := by
  obtain ⟨i, hi, h1, h2, _, h4, h5, h6⟩ := too_small p N h
  refine ⟨i, hi, h1, fun hg => ?_⟩
  have hm : fitsCap (Dec.pushAll (Dec.fresh (some N)) ((frame p).take (i + 1))).1.buf.cap q.length := by
    rw [h6]; exact hq
  obtain ⟨g1, g2, g3⟩ := Resync.noise_frame _ h2 h4 h5 ((frame p).drop (i + 1)) q hg hm
  have hsplit : frame p ++ frame q =
      (frame p).take (i + 1) ++ ((frame p).drop (i + 1) ++ frame q) := by
    rw [← List.append_assoc, List.take_append_drop]
  rw [hsplit, Dec.pushAll_append]
  simp only
  rw [h1, g1]
  exact ⟨rfl, g2, g3⟩

/-- the same with the number of remaining bytes written out: `|g| = |frame p| - (i + 1)`, and
`g = []` iff the error came at the last byte of the frame -/
theorem next_frame_len (p q : List UInt8) (N : Nat) (h : N < p.length) (hq : q.length ≤ N) :
    ∃ i, i < (frame p).length ∧
      (Dec.pushAll (Dec.fresh (some N)) ((frame p).take (i + 1))).2 =
        List.replicate i Out.none ++ [Out.err DecErr.oom] ∧
      (StartFree ((frame p).drop (i + 1)) →
        (Dec.pushAll (Dec.fresh (some N)) (frame p ++ frame q)).2 =
          List.replicate i Out.none ++ [Out.err DecErr.oom] ++
            List.replicate ((frame p).length - (i + 1) + 7) Out.none ++
            [if i + 1 = (frame p).length then Out.none
              else Out.err (.discarded ((frame p).length - (i + 1)))] ++
            List.replicate ((frame q).length - 9) Out.none ++ [Out.msg q]) := by
  obtain ⟨i, hi, h1, h2⟩ := next_frame p q N h hq
  refine ⟨i, hi, h1, fun hg => ?_⟩
  rw [(h2 hg).1, List.length_drop]
  have e : ((frame p).drop (i + 1) = []) ↔ (i + 1 = (frame p).length) := by
    rw [List.drop_eq_nil_iff]; omega
  simp only [e, List.append_assoc]

/-- The items a front-end reports (`decode`, `decode_streaming`: the non-`None` answers):
`OutOfMemory`, `DiscardedBytes(rest of the oversized frame)` (unless the error came at its last
byte), then the payload `q`; `finalize` adds nothing. -/
theorem next_frame_items (p q : List UInt8) (N : Nat) (h : N < p.length) (hq : q.length ≤ N) :
    ∃ i, i < (frame p).length ∧
      (Dec.pushAll (Dec.fresh (some N)) ((frame p).take (i + 1))).2 =
        List.replicate i Out.none ++ [Out.err DecErr.oom] ∧
      (StartFree ((frame p).drop (i + 1)) →
        C15.reference (some N) (frame p ++ frame q) =
          [Item.err .oom] ++
            (if i + 1 = (frame p).length then []
              else [Item.err (.discarded ((frame p).length - (i + 1)))]) ++
            [Item.ok q]) := by
  obtain ⟨i, hi, h1, h2⟩ := next_frame p q N h hq
  refine ⟨i, hi, h1, fun hg => ?_⟩
  obtain ⟨g1, g2, _⟩ := h2 hg
  have e : ((frame p).drop (i + 1) = []) ↔ (i + 1 = (frame p).length) := by
    rw [List.drop_eq_nil_iff]; omega
  have hf : C15.finalItem (Dec.pushAll (Dec.fresh (some N)) (frame p ++ frame q)).1 = [] := by
    simp [C15.finalItem, Dec.finalize, g2]
  have hnone : ∀ n, (List.replicate n Out.none).filterMap Out.toItem? = [] := by
    intro n; simp [List.filterMap_replicate, Out.toItem?]
  unfold C15.reference
  rw [hf, g1, List.length_drop]
  simp only [C15.items, List.filterMap_append, hnone, e, List.nil_append, List.append_nil]
  split <;> simp [Out.toItem?]

/-- `DecoderReader::next` over a slice / iterator / `io::Read` that delivers the oversized frame
and then the next frame, for any number `k` of calls: `Err(OutOfMemory)`, `DiscardedBytes(rest)`
(unless the error came at the last byte), `Ok(q)`, then `None` forever. -/
theorem next_frame_reader (kind : SrcKind) (hk : kind = .mem ∨ kind = .io)
    (p q : List UInt8) (N : Nat) (h : N < p.length) (hq : q.length ≤ N) :
    ∃ i, i < (frame p).length ∧
      (Dec.pushAll (Dec.fresh (some N)) ((frame p).take (i + 1))).2 =
        List.replicate i Out.none ++ [Out.err DecErr.oom] ∧
      (StartFree ((frame p).drop (i + 1)) → ∀ k,
        ((Rdr.new kind (some N) ((frame p ++ frame q).map Ev.byte)).calls
            (List.replicate k .next)).2 =
          padTo RItem.none
            ([RItem.decErr .oom] ++
              (if i + 1 = (frame p).length then []
                else [RItem.decErr (.discarded ((frame p).length - (i + 1)))]) ++
              [RItem.ok q]) k) := by
  obtain ⟨i, hi, h1, h2⟩ := next_frame p q N h hq
  obtain ⟨i', hi', h1', h3⟩ := next_frame_items p q N h hq
  have hii : i' = i := oom_index_unique _ _ _ _ hi' hi h1' h1
  subst hii
  refine ⟨i', hi, h1, fun hg k => ?_⟩
  obtain ⟨_, g2, _⟩ := h2 hg
  have h3 := h3 hg
  have hf : C15.finalItem (Dec.pushAll (Dec.fresh (some N)) (frame p ++ frame q)).1 = [] := by
    simp [C15.finalItem, Dec.finalize, g2]
  have hfr : C15.finalRItem (Dec.pushAll (Dec.fresh (some N)) (frame p ++ frame q)).1 = [] := by
    simp [C15.finalRItem, Dec.finalize, g2]
  unfold C15.reference at h3
  rw [hf, List.append_nil] at h3
  rw [C15.reader_eq kind hk, h3, hfr, List.append_nil]
  congr 1
  split <;> simp [Item.toR]

/-! ### 2. sufficient conditions for the hypothesis -/

/-- If the five bytes `1b 1b 1b 1b 01` do not occur (contiguously) in `g`, then `g` is noise:
a start sequence that begins inside `g` needs them either inside `g`, or with the `01` inside the
following start sequence at one of its first four positions, which hold `1b`. -/
theorem startFree_of_no_esc01 (g : List UInt8)
    (h : ∀ k, ¬ ([0x1b, 0x1b, 0x1b, 0x1b, 0x01] <+: g.drop k)) : StartFree g := by
  intro k hk hpre
  have h5 : ([0x1b, 0x1b, 0x1b, 0x1b, 0x01] : List UInt8) <+: (g ++ START).drop k :=
    List.IsPrefix.trans ⟨[0x01, 0x01, 0x01], rfl⟩ hpre
  by_cases hlen : k + 5 ≤ g.length
  · apply h k
    rw [List.drop_append_of_le_length (by omega)] at h5
    exact List.prefix_of_prefix_length_le h5 (List.prefix_append _ _) (by simp; omega)
  · obtain ⟨t, ht⟩ := h5
    have e : ((g ++ START).drop k)[4]? = some 0x01 := by rw [← ht]; rfl
    rw [List.getElem?_drop, List.getElem?_append_right (by omega)] at e
    have : k + 4 - g.length = 0 ∨ k + 4 - g.length = 1 ∨ k + 4 - g.length = 2 ∨
        k + 4 - g.length = 3 := by omega
    rcases this with h' | h' | h' | h' <;> rw [h'] at e <;> revert e <;> decide

/-- no `1b 1b 1b 1b 01` in `B ++ R` if `B` has no 0x1b at all and `R` has no `1b 1b 1b 1b 01` -/
theorem noEsc01_append (B R : List UInt8) (hB : ∀ b ∈ B, b ≠ 0x1b)
    (hR : ∀ t, ¬ ([0x1b, 0x1b, 0x1b, 0x1b, 0x01] : List UInt8) <+: R.drop t) :
    ∀ t, ¬ ([0x1b, 0x1b, 0x1b, 0x1b, 0x01] : List UInt8) <+: (B ++ R).drop t := by
  induction B with
  | nil => exact hR
  | cons b B ih =>
    intro t
    cases t with
    | zero =>
      intro h
      rw [List.drop_zero, List.cons_append, List.cons_prefix_cons] at h
      exact hB b (by simp) h.1.symm
    | succ t =>
      rw [List.cons_append, List.drop_succ_cons]
      exact ih (fun x hx => hB x (by simp [hx])) t

/-- the end of a frame (`1b1b1b1b 1a`, pad count, checksum) does not contain `1b 1b 1b 1b 01`,
whatever the pad count and the checksum are -/
theorem noEsc01_end (kk c1 c2 : UInt8) :
    ∀ t, ¬ ([0x1b, 0x1b, 0x1b, 0x1b, 0x01] : List UInt8) <+:
      ([0x1b, 0x1b, 0x1b, 0x1b, 0x1a, kk, c1, c2] : List UInt8).drop t := by
  intro t h
  have ht : t = 0 ∨ t = 1 ∨ t = 2 ∨ t = 3 ∨ t = 4 ∨ t = 5 ∨ t = 6 ∨ t = 7 ∨ 8 ≤ t := by omega
  rcases ht with rfl | rfl | rfl | rfl | rfl | rfl | rfl | rfl | ht
  all_goals first
    | (rw [List.drop_of_length_le (by simpa using ht)] at h; simp at h)
    | (simp [List.cons_prefix_cons] at h)

/-- in the frame of a payload without 0x1b bytes, `1b 1b 1b 1b 01` occurs at offset 0 only -/
theorem noEsc01_frame (p : List UInt8) (hp : ∀ b ∈ p, b ≠ 0x1b) (m : Nat) (hm : 1 ≤ m) :
    ¬ ([0x1b, 0x1b, 0x1b, 0x1b, 0x01] : List UInt8) <+: (frame p).drop m := by
  have hs : Spec.stuff p = p := Spec.stuffFrom_of_no_1b 0 hp
  rw [Sml.frame_eq_parts, hs]
  generalize Spec.padLen (Spec.START ++ p).length = k
  generalize crc16 (Spec.framePrefix p) = c
  have hT := noEsc01_append p _ hp (noEsc01_append (List.replicate k 0) _
    (fun b hb => by rw [List.eq_of_mem_replicate hb]; decide)
    (noEsc01_end (UInt8.ofNat k) c.toUInt8 (c >>> 8).toUInt8))
  intro h
  have hm' : m = 1 ∨ m = 2 ∨ m = 3 ∨ m = 4 ∨ m = 5 ∨ m = 6 ∨ m = 7 ∨ 8 ≤ m := by omega
  rcases hm' with rfl | rfl | rfl | rfl | rfl | rfl | rfl | hm'
  · simp [Spec.START] at h
  · simp [Spec.START] at h
  · simp [Spec.START] at h
  · simp [Spec.START] at h
  · simp [Spec.START] at h
  · simp [Spec.START] at h
  · simp [Spec.START] at h
  · rw [List.drop_append, List.drop_of_length_le (by simpa [Spec.START] using hm'),
      List.nil_append] at h
    exact hT _ h

/-- If the payload of the oversized frame contains no 0x1b byte, every proper suffix of its frame
is noise - whatever the checksum bytes are.  So the hypothesis of `next_frame` holds for every
position of the error. -/
theorem startFree_rest_of_no_1b (p : List UInt8) (hp : ∀ b ∈ p, b ≠ 0x1b) (j : Nat) (hj : 1 ≤ j) :
    StartFree ((frame p).drop j) :=
  startFree_of_no_esc01 _ (fun k => by
    rw [List.drop_drop]; exact noEsc01_frame p hp _ (by omega))

/-- `next_frame` without side condition for payloads `p` that contain no 0x1b byte. -/
theorem next_frame_of_no_1b (p q : List UInt8) (N : Nat) (h : N < p.length) (hq : q.length ≤ N)
    (hp : ∀ b ∈ p, b ≠ 0x1b) :
    ∃ i, i < (frame p).length ∧
      (Dec.pushAll (Dec.fresh (some N)) ((frame p).take (i + 1))).2 =
        List.replicate i Out.none ++ [Out.err DecErr.oom] ∧
      (Dec.pushAll (Dec.fresh (some N)) (frame p ++ frame q)).2 =
        List.replicate i Out.none ++ [Out.err DecErr.oom] ++
          List.replicate ((frame p).length - (i + 1) + 7) Out.none ++
          [if i + 1 = (frame p).length then Out.none
            else Out.err (.discarded ((frame p).length - (i + 1)))] ++
          List.replicate ((frame q).length - 9) Out.none ++ [Out.msg q] := by
  obtain ⟨i, hi, h1, h2⟩ := next_frame_len p q N h hq
  exact ⟨i, hi, h1, h2 (startFree_rest_of_no_1b p hp (i + 1) (by omega))⟩

/-! ### 3. non-vacuity (kernel evaluation) -/

/-- `p = 01 02 03 04 05` in an `ArrayBuf<3>`: the error comes at the fourth payload byte (index
11 of 24), the remaining 12 bytes of the frame are noise ... -/
example : (Dec.pushAll (Dec.fresh (some 3)) ((frame [1, 2, 3, 4, 5]).take 12)).2 =
    List.replicate 11 Out.none ++ [Out.err DecErr.oom] := by decide +kernel

example : StartFree ((frame [1, 2, 3, 4, 5]).drop 12) := by decide +kernel

example : ∀ b ∈ ([1, 2, 3, 4, 5] : List UInt8), b ≠ 0x1b := by decide

/-- ... and the conclusion: `None` x 11, `OutOfMemory`, `None` x 19, `DiscardedBytes(12)` at the
last byte of the next start sequence, `None` x 11, the payload `09` -/
example : (Dec.pushAll (Dec.fresh (some 3)) (frame [1, 2, 3, 4, 5] ++ frame [9])).2 =
    List.replicate 11 Out.none ++ [Out.err DecErr.oom] ++ List.replicate 19 Out.none ++
      [Out.err (.discarded 12)] ++ List.replicate 11 Out.none ++ [Out.msg [9]] := by
  decide +kernel

/-- the reader on the same input -/
example : ((Rdr.new .io (some 3) ((frame [1, 2, 3, 4, 5] ++ frame [9]).map Ev.byte)).calls
    (List.replicate 5 .next)).2 =
      [.decErr .oom, .decErr (.discarded 12), .ok [9], .none, .none] := by decide +kernel

/-- the error at the last byte of the frame (withheld zeros, see C16): no noise, no
`DiscardedBytes` -/
example : (Dec.pushAll (Dec.fresh (some 4)) (frame [0, 0, 0, 0, 0] ++ frame [9])).2 =
    List.replicate 23 Out.none ++ [Out.err DecErr.oom] ++ List.replicate 19 Out.none ++
      [Out.msg [9]] := by
  decide +kernel

/-- The hypothesis `StartFree` is needed.  `p = 01 02 1b1b1b1b 01010101` in an `ArrayBuf<1>`: the
error comes at the second payload byte (index 9); the rest of the frame contains
`1b1b1b1b 1b1b1b1b 01010101`, i.e. a start sequence, so the decoder begins a transmission there
(reporting 4 discarded bytes) which ends with a checksum error at the end of the oversized frame.
The next frame is still delivered (the checksum error is a boundary), but the answers are not those
of `next_frame`. -/
example : (Dec.pushAll (Dec.fresh (some 1))
      ((frame [1, 2, 0x1b, 0x1b, 0x1b, 0x1b, 1, 1, 1, 1]).take 10)).2 =
    List.replicate 9 Out.none ++ [Out.err DecErr.oom] := by decide +kernel

example : ¬ StartFree ((frame [1, 2, 0x1b, 0x1b, 0x1b, 0x1b, 1, 1, 1, 1]).drop 10) := by
  decide +kernel

example : (Dec.pushAll (Dec.fresh (some 1))
      (frame [1, 2, 0x1b, 0x1b, 0x1b, 0x1b, 1, 1, 1, 1] ++ frame [9])).2.filterMap Out.toItem? =
    [Item.err .oom, Item.err (.discarded 4), Item.err (.invalidMsg 46494 58810 true 2 false),
      Item.ok [9]] := by decide +kernel

end Sml.C16

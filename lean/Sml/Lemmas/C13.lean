import Sml.Lemmas.ParserBasic
/-
  Lemmas about the streaming parser state machine (used by C13, C06, C09).
-/
namespace Sml
open SParser

/-! ### inversion lemmas for the message start -/

theorem parseViaTlf_ok {α : Type} {check : Tlf → Bool} {withTlf : Bytes → Tlf → PRes α}
    {i : Bytes} {v : α} {r : Bytes} (h : parseViaTlf check withTlf i = .ok (v, r)) :
    ∃ tlf rest, parseTlf i = .ok (tlf, rest) ∧ check tlf = true ∧ withTlf rest tlf = .ok (v, r) := by
  unfold parseViaTlf at h
  split at h
  · cases h
  · rename_i tlf rest heq
    split at h
    · cases h
    · rename_i hck
      simp only [Bool.not_eq_true', Bool.not_eq_false] at hck
      exact ⟨tlf, rest, heq, hck, h⟩

theorem mapRes_ok {α β : Type} {f : α → β} {x : PRes α} {v : β} {r : Bytes}
    (h : mapRes f x = .ok (v, r)) : ∃ a, x = .ok (a, r) ∧ v = f a := by
  cases x with
  | error e => cases h
  | ok y =>
    obtain ⟨a, r'⟩ := y
    simp only [mapRes, Except.ok.injEq, Prod.mk.injEq] at h
    exact ⟨a, by rw [h.2], h.1.symm⟩

theorem parseGlrStartWith_numVals {i : Bytes} {tlf : Tlf} {g : GetListResponseStart} {r : Bytes}
    (h : parseGlrStartWith i tlf = .ok (g, r)) : g.numVals ≤ u32Max := by
  simp only [parseGlrStartWith] at h
  split at h
  · cases h
  split at h
  · cases h
  split at h
  · cases h
  split at h
  · cases h
  split at h
  · cases h
  rename_i heq
  split at h
  · cases h
  · simp only [Except.ok.injEq, Prod.mk.injEq] at h
    rw [← h.1]
    exact C12.tlf_no_wrap _ _ _ heq

/-- the announced number of values of a list response fits 32 bits, so the countdown
    `num_vals + 2` (streaming.rs:44, a `u64` after the fix) cannot overflow -/
theorem parseMessageStart_numVals {i : Bytes} {msg : MessageStart} {r : Bytes}
    {g : GetListResponseStart} (h : parseMessageStart i = .ok (msg, r))
    (hb : msg.messageBody = .getListResponse g) : g.numVals ≤ u32Max := by
  simp only [parseMessageStart] at h
  split at h
  · cases h
  split at h
  · cases h
  rename_i body r' hbody
  simp only [Except.ok.injEq, Prod.mk.injEq] at h
  obtain ⟨hm, _⟩ := h
  subst hm
  simp only at hb
  subst hb
  obtain ⟨tlf, rest, _, _, hw⟩ := parseViaTlf_ok hbody
  simp only [parseSBodyWith] at hw
  split at hw
  · cases hw
  split at hw
  · obtain ⟨a, _, ha⟩ := mapRes_ok hw; cases ha
  split at hw
  · obtain ⟨a, _, ha⟩ := mapRes_ok hw; cases ha
  split at hw
  · obtain ⟨a, hx, ha⟩ := mapRes_ok hw
    cases ha
    obtain ⟨_, _, _, _, hg⟩ := parseViaTlf_ok hx
    exact parseGlrStartWith_numVals hg
  · cases hw

namespace SParser

/-- the countdown value set by a message start: `num_vals + 2` for a list response, else 1 -/
def pendingOf : SBody → Nat
  | .getListResponse g => g.numVals + 2
  | _ => 1

theorem pendingOf_pos (b : SBody) : 1 ≤ pendingOf b := by
  cases b <;> simp [pendingOf]

/-- `parseNextStart` without the (unreachable) overflow branch -/
theorem parseNextStart_eq (p : SParser) :
    parseNextStart p =
      if p.input = [] then (p, .ok none)
      else match parseMessageStart p.input with
        | .error e => ({ p with msgInput := p.input }, .error e)
        | .ok (msg, rest) =>
          ({ input := rest, msgInput := p.input, pending := pendingOf msg.messageBody },
            .ok (some (.messageStart msg))) := by
  unfold parseNextStart
  by_cases he : p.input = []
  · simp [he]
  · have he' : p.input.isEmpty = false := by simpa using he
    simp only [he', Bool.false_eq_true, if_false, he]
    cases heq : parseMessageStart p.input with
    | error e => rfl
    | ok v =>
      obtain ⟨msg, rest⟩ := v
      simp only
      split
      · rename_i glr hb
        have := parseMessageStart_numVals heq hb
        have h2 : ¬ (glr.numVals + 2 > u64Max) := by
          simp only [u32Max] at this; simp only [u64Max]; omega
        simp only [h2, if_false, hb, pendingOf]
      · rename_i hb
        cases hm : msg.messageBody with
        | getListResponse g => exact absurd hm (hb g)
        | openResponse o => simp [pendingOf]
        | closeResponse c => simp [pendingOf]

theorem parseNextStart_none {p p' : SParser} (h : parseNextStart p = (p', .ok none)) :
    p' = p ∧ p.input = [] := by
  rw [parseNextStart_eq] at h
  split at h
  · rename_i he
    simp only [Prod.mk.injEq] at h
    exact ⟨h.1.symm, he⟩
  · split at h
    · simp at h
    · simp at h

theorem parseNextStart_some {p p' : SParser} {x : ParseEvent}
    (h : parseNextStart p = (p', .ok (some x))) :
    p'.input.length + 5 ≤ p.input.length ∧ p'.msgInput = p.input ∧ 1 ≤ p'.pending := by
  rw [parseNextStart_eq] at h
  split at h
  · simp at h
  · split at h
    · simp at h
    · rename_i msg rest heq
      simp only [Prod.mk.injEq] at h
      obtain ⟨hp, _⟩ := h
      subst hp
      have := (adv_parseMessageStart.ok heq).length_le
      exact ⟨this, rfl, pendingOf_pos _⟩

theorem parseNextStart_no_panic {p p' : SParser} {s : String} :
    parseNextStart p ≠ (p', .error (.panic s)) := by
  intro h
  rw [parseNextStart_eq] at h
  split at h
  · simp at h
  · split at h
    · rename_i e heq
      simp only [Prod.mk.injEq, Except.error.injEq] at h
      rw [h.2] at heq
      exact adv_parseMessageStart.no_panic _ _ heq
    · simp at h

/-! ### one step of `parse_next` -/

theorem parseNext_none {p p' : SParser} (h : parseNext p = (p', .ok none)) :
    p'.input = [] ∧ p'.pending = 0 := by
  unfold parseNext at h
  split at h
  · rename_i h0
    obtain ⟨rfl, he⟩ := parseNextStart_none h
    exact ⟨he, h0⟩
  split at h
  · split at h
    · simp at h
    · obtain ⟨rfl, he⟩ := parseNextStart_none h
      exact ⟨he, rfl⟩
  split at h
  · split at h <;> simp at h
  · split at h <;> simp at h

theorem parseNext_some {p p' : SParser} {x : ParseEvent} (h : parseNext p = (p', .ok (some x))) :
    p'.input.length < p.input.length := by
  unfold parseNext at h
  split at h
  · have := (parseNextStart_some h).1
    omega
  split at h
  · split at h
    · simp at h
    · rename_i u r heq
      have h1 := (parseNextStart_some h).1
      have h2 := (parseMsgTrailer_ok _ _ _ _ heq).length_le
      simp only at h1
      omega
  split at h
  · split at h
    · simp at h
    · rename_i g r heq
      simp only [Prod.mk.injEq] at h
      rw [← h.1]
      have := (adv_parseGlrEnd.ok heq).length_le
      simp only
      omega
  · split at h
    · simp at h
    · rename_i g r heq
      simp only [Prod.mk.injEq] at h
      rw [← h.1]
      have := (adv_parseListEntry.ok heq).length_le
      simp only
      omega

/-- the state invariant needed by the trailer: whenever a message is open, the remaining input is
    a (not longer) remainder of the message start -/
def Inv (p : SParser) : Prop := p.pending = 0 ∨ p.input.length ≤ p.msgInput.length

theorem inv_new (x : Bytes) : Inv (new x) := Or.inl rfl

theorem parseNext_inv {p p' : SParser} {x : ParseEvent} (hi : Inv p)
    (h : parseNext p = (p', .ok (some x))) : Inv p' := by
  unfold parseNext at h
  split at h
  · obtain ⟨h1, h2, _⟩ := parseNextStart_some h
    right; rw [h2]; omega
  split at h
  · split at h
    · simp at h
    · obtain ⟨h1, h2, _⟩ := parseNextStart_some h
      right; rw [h2]; simp only at h1 ⊢; omega
  all_goals
    rename_i h0 h1
    have hi' : p.input.length ≤ p.msgInput.length := by
      rcases hi with hi | hi
      · exact absurd hi h0
      · exact hi
  · split at h
    · split at h
      · simp at h
      · rename_i g r heq
        simp only [Prod.mk.injEq] at h
        rw [← h.1]
        have := (adv_parseGlrEnd.ok heq).length_le
        right; simp only; omega
    · split at h
      · simp at h
      · rename_i g r heq
        simp only [Prod.mk.injEq] at h
        rw [← h.1]
        have := (adv_parseListEntry.ok heq).length_le
        right; simp only; omega

theorem parseNext_no_panic {p p' : SParser} {s : String} (hi : Inv p) :
    parseNext p ≠ (p', .error (.panic s)) := by
  intro h
  unfold parseNext at h
  split at h
  · exact parseNextStart_no_panic h
  split at h
  · rename_i h0 h1
    have hi' : p.input.length ≤ p.msgInput.length := by
      rcases hi with hi | hi
      · exact absurd hi h0
      · exact hi
    split at h
    · rename_i e heq
      simp only [Prod.mk.injEq, Except.error.injEq] at h
      rw [h.2] at heq
      exact parseMsgTrailer_no_panic _ _ hi' _ heq
    · exact parseNextStart_no_panic h
  split at h
  · split at h
    · rename_i e heq
      simp only [Prod.mk.injEq, Except.error.injEq] at h
      rw [h.2] at heq
      exact adv_parseGlrEnd.no_panic _ _ heq
    · simp at h
  · split at h
    · rename_i e heq
      simp only [Prod.mk.injEq, Except.error.injEq] at h
      rw [h.2] at heq
      exact adv_parseListEntry.no_panic _ _ heq
    · simp at h

/-! ### one step of `Iterator::next` -/

/-- no more input and no open message: the iterator is exhausted -/
def Dead (p : SParser) : Prop := p.input = [] ∧ p.pending = 0

theorem next_dead {p : SParser} (h : Dead p) : p.next = (p, none) := by
  obtain ⟨h1, h2⟩ := h
  simp [next, parseNext, h2, parseNextStart_eq, h1]

theorem next_cases (p : SParser) :
    (∃ p', p.next = (p', none) ∧ Dead p') ∨
    (∃ p' e, p.next = (p', some (.err e)) ∧ Dead p') ∨
    (∃ p' x, p.next = (p', some (.ev x)) ∧ p'.input.length < p.input.length) := by
  unfold next
  cases h : p.parseNext with
  | mk p' res =>
    cases res with
    | error e => exact Or.inr (Or.inl ⟨_, e, rfl, rfl, rfl⟩)
    | ok o =>
      cases o with
      | none => exact Or.inl ⟨p', rfl, parseNext_none h⟩
      | some x => exact Or.inr (Or.inr ⟨p', x, rfl, parseNext_some h⟩)

theorem next_inv {p p' : SParser} {r : Option SItem} (hi : Inv p) (h : p.next = (p', r)) :
    Inv p' ∧ ∀ s, r ≠ some (.err (.panic s)) := by
  unfold next at h
  cases hn : p.parseNext with
  | mk q res =>
    rw [hn] at h
    cases res with
    | error e =>
      simp only [Prod.mk.injEq] at h
      obtain ⟨rfl, rfl⟩ := h
      refine ⟨Or.inl rfl, fun s hs => ?_⟩
      simp only [Option.some.injEq, SItem.err.injEq] at hs
      subst hs
      exact parseNext_no_panic hi hn
    | ok o =>
      cases o with
      | none =>
        simp only [Prod.mk.injEq] at h
        obtain ⟨rfl, rfl⟩ := h
        exact ⟨Or.inl (parseNext_none hn).2, fun s hs => by cases hs⟩
      | some x =>
        simp only [Prod.mk.injEq] at h
        obtain ⟨rfl, rfl⟩ := h
        exact ⟨parseNext_inv hi hn, fun s hs => by cases hs⟩

/-! ### `take`, `collect`, and the fuel-free run -/

theorem take_zero (p : SParser) : p.take 0 = (p, []) := rfl

theorem take_succ (p : SParser) (n : Nat) :
    p.take (n + 1) = ((p.next.1.take n).1, p.next.2 :: (p.next.1.take n).2) := rfl

theorem take_dead {p : SParser} (h : Dead p) (k : Nat) :
    p.take k = (p, List.replicate k none) := by
  induction k with
  | zero => rfl
  | succ k ih => rw [take_succ, next_dead h]; simp [ih, List.replicate_succ]

/-- with enough fuel `collect` does not depend on the fuel -/
theorem collect_fuel (n : Nat) : ∀ (p : SParser), p.input.length ≤ n → ∀ f1 f2, n + 1 ≤ f1 →
    n + 1 ≤ f2 → p.collect f1 = p.collect f2 := by
  induction n with
  | zero =>
    intro p hp f1 f2 h1 h2
    obtain ⟨f1, rfl⟩ : ∃ k, f1 = k + 1 := ⟨f1 - 1, by omega⟩
    obtain ⟨f2, rfl⟩ : ∃ k, f2 = k + 1 := ⟨f2 - 1, by omega⟩
    rcases next_cases p with ⟨p', h, _⟩ | ⟨p', e, h, _⟩ | ⟨p', x, h, hlt⟩
    · simp [collect, h]
    · simp [collect, h]
    · omega
  | succ n ih =>
    intro p hp f1 f2 h1 h2
    obtain ⟨f1, rfl⟩ : ∃ k, f1 = k + 1 := ⟨f1 - 1, by omega⟩
    obtain ⟨f2, rfl⟩ : ∃ k, f2 = k + 1 := ⟨f2 - 1, by omega⟩
    rcases next_cases p with ⟨p', h, _⟩ | ⟨p', e, h, _⟩ | ⟨p', x, h, hlt⟩
    · simp [collect, h]
    · simp [collect, h]
    · simp only [collect, h]
      rw [ih p' (by omega) f1 f2 (by omega) (by omega)]

/-- all items of the iteration up to the first `None` or error (fuel-free) -/
def run (p : SParser) : List SItem := p.collect (p.input.length + 1)

theorem collect_eq_run (p : SParser) (fuel : Nat) (h : p.input.length + 1 ≤ fuel) :
    p.collect fuel = run p :=
  collect_fuel p.input.length p (Nat.le_refl _) _ _ h (Nat.le_refl _)

theorem run_unfold (p : SParser) :
    run p = match p.next with
      | (_, none) => []
      | (_, some (.err e)) => [.err e]
      | (p', some (.ev x)) => .ev x :: run p' := by
  rcases next_cases p with ⟨p', h, _⟩ | ⟨p', e, h, _⟩ | ⟨p', x, h, hlt⟩
  · simp [run, collect, h]
  · simp [run, collect, h]
  · simp only [run, collect, h]
    rw [collect_eq_run p' _ (by omega)]
    rfl

theorem run_congr {p q : SParser} (h : p.next = q.next) : run p = run q := by
  rw [run_unfold p, run_unfold q, h]

/-- predicate: the item is an event (not an error) -/
def SItem.isEv : SItem → Bool
  | .ev _ => true
  | .err _ => false

/-- structure of the run: at most `|input|` events, then possibly one error -/
theorem run_shape (n : Nat) : ∀ (p : SParser), p.input.length ≤ n →
    ∃ evs : List ParseEvent, evs.length ≤ p.input.length ∧
      (run p = evs.map .ev ∨ ∃ e, run p = evs.map .ev ++ [.err e]) := by
  induction n with
  | zero =>
    intro p hp
    rcases next_cases p with ⟨p', h, _⟩ | ⟨p', e, h, _⟩ | ⟨p', x, h, hlt⟩
    · exact ⟨[], Nat.zero_le _, Or.inl (by rw [run_unfold, h]; rfl)⟩
    · exact ⟨[], Nat.zero_le _, Or.inr ⟨e, by rw [run_unfold, h]; rfl⟩⟩
    · omega
  | succ n ih =>
    intro p hp
    rcases next_cases p with ⟨p', h, _⟩ | ⟨p', e, h, _⟩ | ⟨p', x, h, hlt⟩
    · exact ⟨[], Nat.zero_le _, Or.inl (by rw [run_unfold, h]; rfl)⟩
    · exact ⟨[], Nat.zero_le _, Or.inr ⟨e, by rw [run_unfold, h]; rfl⟩⟩
    · obtain ⟨evs, hl, hr⟩ := ih p' (by omega)
      refine ⟨x :: evs, by simp only [List.length_cons]; omega, ?_⟩
      rw [run_unfold, h]
      rcases hr with hr | ⟨e, hr⟩
      · left; simp [hr]
      · right; exact ⟨e, by simp [hr]⟩

/-- only the last item of a run can be an error -/
theorem run_err_last (p : SParser) (j : Nat) (e : PErr) (h : (run p)[j]? = some (.err e)) :
    j + 1 = (run p).length := by
  obtain ⟨evs, _, hr⟩ := run_shape p.input.length p (Nat.le_refl _)
  rcases hr with hr | ⟨e', hr⟩
  · rw [hr, List.getElem?_map] at h
    cases hj : evs[j]? <;> simp [hj] at h
  · rw [hr] at h ⊢
    by_cases hj : j < evs.length
    · rw [List.getElem?_append_left (by simpa using hj), List.getElem?_map] at h
      cases hj : evs[j]? <;> simp [hj] at h
    · by_cases hj2 : j = evs.length
      · simp [hj2]
      · rw [List.getElem?_eq_none (by simp; omega)] at h
        cases h

theorem run_length_le (p : SParser) : (run p).length ≤ p.input.length + 1 := by
  obtain ⟨evs, hl, hr⟩ := run_shape p.input.length p (Nat.le_refl _)
  rcases hr with hr | ⟨e', hr⟩
  · rw [hr]; simp; omega
  · rw [hr]; simp; omega

/-- at most `|input|` items of a run are events -/
theorem run_events_le (p : SParser) : ((run p).filter SItem.isEv).length ≤ p.input.length := by
  obtain ⟨evs, hl, hr⟩ := run_shape p.input.length p (Nat.le_refl _)
  have : (evs.map SItem.ev).filter SItem.isEv = evs.map SItem.ev := by
    rw [List.filter_eq_self]
    intro a ha
    obtain ⟨x, _, rfl⟩ := List.mem_map.1 ha
    rfl
  rcases hr with hr | ⟨e', hr⟩
  · rw [hr, this]; simpa using hl
  · rw [hr, List.filter_append, this]; simpa [SItem.isEv] using hl

theorem run_new (x : Bytes) : run (new x) = (new x).collect (x.length + 1) := rfl

/-- the first `k` results of the iterator are the first `k` items of the run, then `None`s -/
theorem take_eq_run (n : Nat) : ∀ (p : SParser), p.input.length ≤ n → ∀ k,
    (p.take k).2 = ((run p).take k).map some ++ List.replicate (k - (run p).length) none := by
  induction n with
  | zero =>
    intro p hp k
    cases k with
    | zero => simp [take_zero]
    | succ k =>
      rw [take_succ, run_unfold]
      rcases next_cases p with ⟨p', h, hd⟩ | ⟨p', e, h, hd⟩ | ⟨p', x, h, hlt⟩
      · simp [h, take_dead hd, List.replicate_succ]
      · simp [h, take_dead hd]
      · omega
  | succ n ih =>
    intro p hp k
    cases k with
    | zero => simp [take_zero]
    | succ k =>
      rw [take_succ, run_unfold]
      rcases next_cases p with ⟨p', h, hd⟩ | ⟨p', e, h, hd⟩ | ⟨p', x, h, hlt⟩
      · simp [h, take_dead hd, List.replicate_succ]
      · simp [h, take_dead hd]
      · simp only [h, List.take_succ_cons, List.map_cons, List.cons_append, List.length_cons,
          Nat.add_sub_add_right]
        rw [ih p' (by omega) k]

/-- invariant along `take`: no result is a panic -/
theorem take_no_panic (k : Nat) : ∀ (p : SParser), Inv p →
    ∀ it ∈ (p.take k).2, ∀ s, it ≠ some (.err (.panic s)) := by
  induction k with
  | zero => intro p _ it hit; simp [take_zero] at hit
  | succ k ih =>
    intro p hi it hit s
    rw [take_succ] at hit
    obtain ⟨hi', hnp⟩ := next_inv hi (show p.next = (p.next.1, p.next.2) from rfl)
    simp only [List.mem_cons] at hit
    rcases hit with rfl | hit
    · exact hnp s
    · exact ih _ hi' it hit s

end SParser
end Sml

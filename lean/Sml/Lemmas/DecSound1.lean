import Sml.Lemmas.DecSound
import Sml.Spec.Tiling
/-
  Lemmas for C17 (tiling): the invariant `TInv b i d` ties the decoder's `raw_msg_len` to the
  positions used by the walker of `Sml/Spec/Tiling.lean` (`b` = previous boundary, `i` = bytes
  consumed), and `tpost_pushByte` shows that every `push_byte` keeps it and reports what the walker
  expects.  The invariant also carries the small bounds that exclude every panic site.
-/
namespace Sml

open Spec (tileStep tileFrom tileEnd tileReset tileOpStep tileOps)

namespace Dec

/-- the invariant per state (`raw` = `raw_msg_len`) -/
def TI (b i raw : Nat) : DState → Prop
  | .look disc init => b + raw = i ∧ raw = disc + init ∧ init ≤ 7
  | .normal => b + raw = i ∧ 8 ≤ raw
  | .escChars n => b + raw = i ∧ 8 + n ≤ raw ∧ 1 ≤ n ∧ n ≤ 3
  | .escPayload step _ => b + raw = i ∧ 12 ≤ raw ∧ step ≤ 3
  | .done => b = i

/-- `raw_msg_len` counts the bytes since the boundary `b` (in state `Done` the boundary is the
current position) -/
def TInv (b i : Nat) (d : Dec) : Prop := TI b i d.raw d.st

/-- what `push_byte` must deliver for the byte at position `i` -/
def TPost (b i : Nat) (p : Dec × Res) : Prop :=
  match p.2 with
  | .more => TInv b (i + 1) p.1
  | .ready => p.1.st = .done ∧ b + p.1.raw = i + 1
  | .err (.discarded n) => 8 + b ≤ i + 1 ∧ n = i + 1 - 8 - b ∧ 0 < n ∧ TInv (i + 1 - 8) (i + 1) p.1
  | .err _ => TInv (i + 1) (i + 1) p.1
  | .panic _ => False

theorem tinv_fresh (cap : Option Nat) : TInv 0 0 (fresh cap) := by
  simp [TInv, TI, fresh]

/-- a decoder constructed at position `i` (`Decoder::new()` / `from_buf` in mid-stream) -/
theorem tinv_fresh_at (i : Nat) (cap : Option Nat) : TInv i i (fresh cap) := by
  simp [TInv, TI, fresh]

theorem tinv_reset (i : Nat) (d : Dec) : TInv i i (d.reset).1 := by
  simp [TInv, TI, reset]

theorem tpost_oom (b i : Nat) (d : Dec) : TPost b i ((d.reset).1, .err .oom) :=
  tinv_reset (i + 1) d

theorem tpost_look {b i : Nat} {d : Dec} {disc init : Nat} (hst : d.st = .look disc init)
    (h : TInv b i d) (x : UInt8) : TPost b i (d.pushByte x) := by
  rw [pushByte_look hst]
  simp only [TInv, hst, TI] at h
  obtain ⟨h1, h2, h3⟩ := h
  unfold pushLook
  dsimp only
  split
  · rw [if_neg (by omega)]
    split
    · next h8 =>
      split
      · simp only [TPost, TInv, TI]
        omega
      · simp only [TPost, TInv, TI]
        omega
    · simp only [TPost, TInv, TI]
      omega
  · next hno =>
    have hk : (if x = 0x1b then (if init = 4 then 4 else 1) else 0 : Nat) ≤ 1 + init := by
      split
      · split <;> omega
      · omega
    rw [if_neg (by omega)]
    simp only [TPost, TInv, TI]
    refine ⟨by omega, by omega, ?_⟩
    split
    · split <;> omega
    · omega

theorem tpost_normal {b i : Nat} {d : Dec} (hst : d.st = .normal)
    (h : TInv b i d) (x : UInt8) : TPost b i (d.pushByte x) := by
  rw [pushByte_normal hst]
  simp only [TInv, hst, TI] at h
  obtain ⟨h1, h2⟩ := h
  simp only
  split
  · simp only [TPost, TInv, TI]; omega
  · apply afterPush_cases (pushData_ok _ x)
    · intro d' hp
      obtain ⟨p1, _, p3, _⟩ := hp
      simp only [TPost, TInv, p1, p3, hst, TI]
      omega
    · exact tpost_oom _ _ _

theorem tpost_escChars {b i : Nat} {d : Dec} {n : Nat} (hst : d.st = .escChars n)
    (h : TInv b i d) (x : UInt8) : TPost b i (d.pushByte x) := by
  rw [pushByte_escChars hst]
  simp only [TInv, hst, TI] at h
  obtain ⟨h1, h2, h3, h4⟩ := h
  simp only
  split
  · apply afterPush_cases (pushRep_ok _ n _)
    · intro d' hp
      apply afterPush_cases (pushData_ok _ x)
      · intro d'' hp'
        obtain ⟨p1, _, _, _⟩ := hp
        obtain ⟨q1, _, _, _⟩ := hp'
        simp only [TPost, TInv, q1, p1, TI]
        omega
      · exact tpost_oom _ _ _
    · exact tpost_oom _ _ _
  · split
    · simp only [TPost, TInv, TI]; omega
    · rw [if_neg (by omega)]
      simp only [TPost, TInv, TI]; omega

theorem quad_set_some {step : Nat} (h : step ≤ 3) (q : Quad) (x : UInt8) :
    ∃ q', q.set step x = some q' := by
  have : step = 0 ∨ step = 1 ∨ step = 2 ∨ step = 3 := by omega
  rcases this with rfl | rfl | rfl | rfl <;> exact ⟨_, rfl⟩

theorem tpost_pushEnd {b i : Nat} {d : Dec} (q : Quad) (h1 : b + d.raw = i + 1) :
    TPost b i (pushEnd d q) := by
  unfold pushEnd
  simp only
  split
  · exact tinv_reset _ _
  · next hc =>
    simp only [Bool.or_eq_true, not_or, decide_eq_true_eq] at hc
    rw [if_neg (by omega)]
    split
    · exact tpost_oom _ _ _
    · next d3 hfl =>
      obtain ⟨f1, _⟩ := flush_some hfl
      have f1 : d3.raw = d.raw := f1
      exact ⟨rfl, by show b + d3.raw = i + 1; omega⟩

theorem tpost_escComplete {b i : Nat} {d : Dec} (q : Quad)
    (h1 : b + d.raw = i + 1) (h2 : 13 ≤ d.raw) : TPost b i (pushEscComplete d q) := by
  unfold pushEscComplete
  dsimp only
  split
  · apply afterPush_cases (pushList_ok _ _)
    · intro d' hp
      obtain ⟨p1, _, _, _⟩ := hp
      simp only [TPost, TInv, p1, TI]
      omega
    · exact tpost_oom _ _ _
  · split
    · rw [if_neg (by omega)]
      simp only [TPost, TInv, TI]
      omega
    · split
      · exact tpost_pushEnd q h1
      · split
        · next hk =>
          apply afterPush_cases (pushRep_ok _ _ _)
          · intro d' hp
            obtain ⟨p1, _, _, _⟩ := hp
            simp only [TPost, TInv, p1, TI]
            omega
          · exact tpost_oom _ _ _
        · exact tinv_reset _ _

theorem tpost_escPayload {b i : Nat} {d : Dec} {step : Nat} {q : Quad}
    (hst : d.st = .escPayload step q) (h : TInv b i d) (x : UInt8) : TPost b i (d.pushByte x) := by
  rw [pushByte_escPayload hst]
  simp only [TInv, hst, TI] at h
  obtain ⟨h1, h2, h3⟩ := h
  obtain ⟨q', hq'⟩ := quad_set_some h3 q x
  simp only [hq']
  split
  · simp only [TPost, TInv, TI]; omega
  · exact tpost_escComplete q' (by simp only; omega) (by simp only; omega)

/-- every `push_byte` reports what the walker expects and keeps the invariant -/
theorem tpost_pushByte {b i : Nat} {d : Dec} (h : TInv b i d) (x : UInt8) :
    TPost b i (d.pushByte x) := by
  cases hst : d.st with
  | look disc init => exact tpost_look hst h x
  | normal => exact tpost_normal hst h x
  | escChars n => exact tpost_escChars hst h x
  | escPayload step q => exact tpost_escPayload hst h x
  | done =>
    rw [pushByte_done hst]
    have hb : b = i := by simpa [TInv, hst, TI] using h
    subst hb
    exact tpost_look (reset_st d) (tinv_reset b d) x

/-- the same for `Decoder::push_byte` as seen by the caller -/
theorem tinv_push {b i : Nat} {d : Dec} (h : TInv b i d) (x : UInt8) :
    ∃ b', tileStep b i (d.push x).2 = some b' ∧ TInv b' (i + 1) (d.push x).1 := by
  have hp := tpost_pushByte h x
  unfold Dec.push
  revert hp
  rcases d.pushByte x with ⟨d', r⟩
  cases r with
  | more => intro hp; exact ⟨b, rfl, hp⟩
  | ready =>
    intro hp
    have hd : d'.st = .done := hp.1
    refine ⟨i + 1, ?_, ?_⟩
    · simp [borrowBuf, isDone, hd, tileStep]
    · simp [TInv, hd, TI]
  | err e =>
    intro hp
    cases e with
    | discarded n =>
      obtain ⟨a1, a2, a3, a4⟩ := hp
      refine ⟨i + 1 - 8, ?_, a4⟩
      simp only [tileStep]
      rw [if_pos ⟨a1, a2, a3⟩]
    | invalidEsc a b c d => exact ⟨i + 1, rfl, hp⟩
    | oom => exact ⟨i + 1, rfl, hp⟩
    | invalidMsg a b c d e => exact ⟨i + 1, rfl, hp⟩
  | panic s => intro hp; exact hp.elim

/-- `finalize` reports exactly the bytes since the boundary -/
theorem tinv_finalize {b i : Nat} {d : Dec} (h : TInv b i d) :
    tileEnd b i (d.finalize).2 = true ∧ TInv i i (d.finalize).1 := by
  refine ⟨?_, tinv_reset i d⟩
  unfold finalize
  simp only [TInv] at h
  cases hst : d.st with
  | look disc init =>
    simp only [hst, TI] at h
    obtain ⟨h1, h2, h3⟩ := h
    cases disc with
    | zero =>
      cases init with
      | zero => simp [tileEnd]; omega
      | succ k => simp [tileEnd]; omega
    | succ k => simp [tileEnd]; omega
  | normal => simp only [hst, TI] at h; simp [tileEnd]; omega
  | escChars n => simp only [hst, TI] at h; simp [tileEnd]; omega
  | escPayload step q => simp only [hst, TI] at h; simp [tileEnd]; omega
  | done => simp only [hst, TI] at h; simp [tileEnd]; omega

/-- `reset` returns exactly the number of bytes since the boundary -/
theorem tinv_reset_count {b i : Nat} {d : Dec} (h : TInv b i d) :
    tileReset b i (d.reset).2 = true ∧ TInv i i (d.reset).1 := by
  refine ⟨?_, tinv_reset i d⟩
  unfold reset tileReset
  simp only [TInv] at h
  cases hst : d.st with
  | look disc init => simp only [hst, TI] at h; simp; omega
  | normal => simp only [hst, TI] at h; simp; omega
  | escChars n => simp only [hst, TI] at h; simp; omega
  | escPayload step q => simp only [hst, TI] at h; simp; omega
  | done => simp only [hst, TI] at h; simp; omega

/-- a byte stream -/
theorem tinv_pushAll (s : List UInt8) : ∀ {b i : Nat} {d : Dec}, TInv b i d →
    ∃ b', tileFrom b i (d.pushAll s).2 = some b' ∧ TInv b' (i + s.length) (d.pushAll s).1 := by
  induction s with
  | nil => intro b i d h; exact ⟨b, rfl, h⟩
  | cons x xs ih =>
    intro b i d h
    obtain ⟨b1, e1, h1⟩ := tinv_push h x
    obtain ⟨b2, e2, h2⟩ := ih h1
    refine ⟨b2, ?_, ?_⟩
    · simp only [pushAll, tileFrom, e1, e2]
    · have : i + (x :: xs).length = i + 1 + xs.length := by simp; omega
      rw [this]
      exact h2

/-- one operation of a history -/
theorem tinv_step {b i : Nat} {d : Dec} (h : TInv b i d) (op : Op) :
    ∃ b', tileOpStep b i (d.step op).2 = some (b', i + Spec.pushCount [op]) ∧
      TInv b' (i + Spec.pushCount [op]) (d.step op).1 := by
  cases op with
  | push x =>
    obtain ⟨b1, e1, h1⟩ := tinv_push h x
    exact ⟨b1, by simp only [step, tileOpStep, e1, Spec.pushCount], h1⟩
  | fin =>
    obtain ⟨e1, h1⟩ := tinv_finalize h
    exact ⟨i, by simp only [step, tileOpStep, e1, if_true, Spec.pushCount, Nat.add_zero], h1⟩
  | reset =>
    obtain ⟨e1, h1⟩ := tinv_reset_count h
    exact ⟨i, by simp only [step, tileOpStep, e1, if_true, Spec.pushCount, Nat.add_zero], h1⟩
  | new =>
    exact ⟨i, by simp only [step, tileOpStep, Spec.pushCount, Nat.add_zero],
      tinv_fresh_at i d.buf.cap⟩
  | fromBuf stale =>
    exact ⟨i, by simp only [step, tileOpStep, Spec.pushCount, Nat.add_zero],
      tinv_fresh_at i d.buf.cap⟩

theorem pushCount_cons (op : Op) (ops : List Op) :
    Spec.pushCount (op :: ops) = Spec.pushCount [op] + Spec.pushCount ops := by
  cases op <;> simp [Spec.pushCount] <;> omega

/-- a history -/
theorem tinv_run (ops : List Op) : ∀ {b i : Nat} {d : Dec}, TInv b i d →
    ∃ b', tileOps b i (d.run ops).2 = some (b', i + Spec.pushCount ops) ∧
      TInv b' (i + Spec.pushCount ops) (d.run ops).1 := by
  induction ops with
  | nil => intro b i d h; exact ⟨b, rfl, h⟩
  | cons op ops ih =>
    intro b i d h
    obtain ⟨b1, e1, h1⟩ := tinv_step h op
    obtain ⟨b2, e2, h2⟩ := ih h1
    rw [pushCount_cons, ← Nat.add_assoc]
    exact ⟨b2, by simp only [run, tileOps, e1, e2], h2⟩

end Dec

end Sml

/-
  The push decoder over a `Vec<u8>` whose allocation may fail (`DecF`,
  Sml/Model/DecodeFallible.lean) against the decoder model `Dec` (Sml/Model/Decode.lean).

  Main fact (`DecF.step_rel`, a forward simulation with one exception): one operation of `DecF`
    * never extends the oracle (what remains is a suffix), and
    * EITHER gives the same answer and the same new decoder state as the operation of `Dec`,
    * OR the oracle contained a `false`, the answer is `Err(OutOfMemory)` and the new decoder state
      is a reset one (`blank c cap`: what `Dec.reset` leaves, over the same capacity).
  With an oracle that never fails only the first alternative remains (`step_allTrue`).

  Everything else is a corollary, because each invariant of `Dec` used by C05 / C14 / C02 / C17
  holds in a reset state:
    * `Dec.Inv`  (C05: no panic, usable afterwards)        — `inv_blank`
    * `Dec.norm … = Dec.fresh cap` (C14: as good as new)   — `norm_blank`
    * `Dec.SInv c` for every `c` (C02: soundness)          — `sinv_blank`
    * `Dec.TInv i i` (C17: tiling, a frame ends here)      — `tinv_blank`
-/
import Sml.Model.DecodeFallible
import Sml.Lemmas.DecBasic
import Sml.Lemmas.DecSound1
import Sml.Lemmas.DecSound2

namespace Sml

namespace DecF

/-! ### oracles -/

/-- the allocator never fails -/
def AllTrue (l : List Bool) : Prop := ∀ a ∈ l, a = true

theorem allTrue_nil : AllTrue [] := fun _ h => nomatch h

theorem AllTrue.suffix {l l' : List Bool} (h : AllTrue l) (hs : l' <:+ l) : AllTrue l' :=
  fun a ha => h a (hs.subset ha)

theorem exists_false_of_not_allTrue {l : List Bool} (h : ¬ AllTrue l) : ∃ a ∈ l, a = false := by
  apply Classical.byContradiction
  intro hno
  apply h
  intro a ha
  cases a with
  | true => rfl
  | false => exact absurd ⟨false, ha, rfl⟩ hno

theorem ask_suffix (l : List Bool) : (ask l).2 <:+ l := by
  cases l with
  | nil => exact List.suffix_refl _
  | cons a rest => exact List.suffix_cons a rest

theorem ask_allTrue {l : List Bool} (h : AllTrue l) : (ask l).1 = true := by
  cases l with
  | nil => rfl
  | cons a rest => exact h a List.mem_cons_self

/-! ### the reset state -/

/-- a reset decoder with digest `c` over an empty buffer of capacity `cap` -/
def blank (c : UInt16) (cap : Option Nat) : Dec :=
  { raw := 0, crc := c, st := .look 0 0, zc := 0, buf := { cap := cap, rdata := [] } }

theorem reset_eq_blank (d : Dec) : d.reset.1 = blank d.crc d.buf.cap := rfl

theorem blank_eq_reset (c : UInt16) (cap : Option Nat) : blank c cap = (blank c cap).reset.1 := rfl

theorem inv_blank (c : UInt16) (cap : Option Nat) : Dec.Inv (blank c cap) := by
  rw [blank_eq_reset]; exact Dec.inv_reset _

theorem norm_blank (c : UInt16) (cap : Option Nat) : (blank c cap).norm = Dec.fresh cap := rfl

theorem sinv_blank (cs : List UInt8) (c : UInt16) (cap : Option Nat) : Dec.SInv cs (blank c cap) := by
  rw [blank_eq_reset]; exact Dec.sinv_reset cs _

theorem tinv_blank (i : Nat) (c : UInt16) (cap : Option Nat) : Dec.TInv i i (blank c cap) := by
  rw [blank_eq_reset]; exact Dec.tinv_reset i _

theorem Buf.push_cap {b b' : Buf} {x : UInt8} (h : b.push x = some b') : b'.cap = b.cap := by
  unfold Buf.push at h
  split at h
  · cases h
  · cases h; rfl

/-! ### the data-push helpers -/

/-- `Option Dec` results of `Dec.pushInner` / `pushZeros` / `flush` as `PushRes` -/
def ofOpt : Option Dec → Dec.PushRes
  | some d => .ok d
  | none => .oom

/-- Relation between the result of a data push on `DecF` and on `Dec`, for a push that started
    from a state with digest `c`, capacity `cap` and oracle `al`. -/
inductive RelP (c : UInt16) (cap : Option Nat) (al : List Bool) : PushResF → Dec.PushRes → Prop
  | ok (f' : DecF) : f'.d.crc = c → f'.d.buf.cap = cap → f'.alloc <:+ al →
      RelP c cap al (.ok f') (.ok f'.d)
  | oom (f' : DecF) (r : Dec.PushRes) : f'.d = blank c cap → f'.alloc <:+ al →
      (AllTrue al → r = .oom) → RelP c cap al (.oom f') r
  | panic (s : String) : RelP c cap al (.panic s) (.panic s)

theorem RelP.weaken {c : UInt16} {cap : Option Nat} {al al' : List Bool} {r : PushResF}
    {ra : Dec.PushRes} (h : RelP c cap al' r ra) (hs : al' <:+ al) : RelP c cap al r ra := by
  cases h with
  | ok f' h1 h2 h3 => exact RelP.ok f' h1 h2 (h3.trans hs)
  | oom f' r h1 h2 h3 => exact RelP.oom f' _ h1 (h2.trans hs) (fun ha => h3 (ha.suffix hs))
  | panic s => exact RelP.panic s

theorem pushInner_rel (f : DecF) (b : UInt8) :
    RelP f.d.crc f.d.buf.cap f.alloc (f.pushInner b) (ofOpt (f.d.pushInner b)) := by
  unfold DecF.pushInner Dec.pushInner
  have hsuf := ask_suffix f.alloc
  have htrue := ask_allTrue (l := f.alloc)
  generalize ask f.alloc = q at hsuf htrue
  rcases q with ⟨a, rest⟩
  cases a with
  | true =>
    dsimp only
    cases hp : f.d.buf.push b with
    | some buf => exact RelP.ok ⟨{ f.d with buf := buf }, rest⟩ rfl (Buf.push_cap hp) hsuf
    | none => exact RelP.oom ⟨f.d.reset.1, rest⟩ _ (reset_eq_blank f.d) hsuf (fun _ => rfl)
  | false =>
    dsimp only
    exact RelP.oom ⟨f.d.reset.1, rest⟩ _ (reset_eq_blank f.d) hsuf
      (fun ha => absurd (htrue ha) (by simp))

theorem pushZeros_rel (n : Nat) : ∀ (f : DecF),
    RelP f.d.crc f.d.buf.cap f.alloc (f.pushZeros n) (ofOpt (f.d.pushZeros n)) := by
  induction n with
  | zero => intro f; exact RelP.ok f rfl rfl (List.suffix_refl _)
  | succ n ih =>
    intro f
    have hs := pushInner_rel f 0
    unfold DecF.pushZeros Dec.pushZeros
    generalize f.pushInner 0 = r at hs
    generalize f.d.pushInner 0 = ra at hs
    cases ra with
    | none =>
      cases hs with
      | oom f' _ h1 h2 h3 => exact RelP.oom f' _ h1 h2 h3
    | some da =>
      cases hs with
      | ok f' h1 h2 h3 =>
        have := (ih f').weaken h3
        rw [h1, h2] at this
        exact this
      | oom f' _ h1 h2 h3 =>
        exact RelP.oom f' _ h1 h2 (fun ha => nomatch h3 ha)

theorem flush_rel (f : DecF) :
    RelP f.d.crc f.d.buf.cap f.alloc f.flush (ofOpt f.d.flush) := by
  have hs := pushZeros_rel f.d.zc f
  unfold DecF.flush Dec.flush
  generalize f.pushZeros f.d.zc = r at hs
  generalize f.d.pushZeros f.d.zc = ra at hs
  cases ra with
  | none =>
    cases hs with
    | oom f' _ h1 h2 h3 => exact RelP.oom f' _ h1 h2 h3
  | some da =>
    cases hs with
    | ok f' h1 h2 h3 => exact RelP.ok ⟨{ f'.d with zc := 0 }, f'.alloc⟩ h1 h2 h3
    | oom f' _ h1 h2 h3 => exact RelP.oom f' _ h1 h2 (fun ha => nomatch h3 ha)

theorem pushData_rel (f : DecF) (b : UInt8) :
    RelP f.d.crc f.d.buf.cap f.alloc (f.pushData b) (f.d.pushData b) := by
  unfold DecF.pushData Dec.pushData
  by_cases hb : b = 0
  · rw [if_pos hb, if_pos hb]
    by_cases hz3 : f.d.zc ≤ 3
    · rw [if_pos hz3, if_pos hz3]
      by_cases ho : f.d.zc + 1 > 255
      · rw [if_pos ho, if_pos ho]; exact RelP.panic _
      · rw [if_neg ho, if_neg ho]
        exact RelP.ok ⟨{ f.d with zc := f.d.zc + 1 }, f.alloc⟩ rfl rfl (List.suffix_refl _)
    · rw [if_neg hz3, if_neg hz3]
      have hs := pushInner_rel f b
      generalize f.pushInner b = r at hs
      generalize f.d.pushInner b = ra at hs
      cases ra <;> exact hs
  · rw [if_neg hb, if_neg hb]
    have hs := flush_rel f
    generalize f.flush = r at hs
    generalize f.d.flush = ra at hs
    cases ra with
    | none =>
      cases hs with
      | oom f' _ h1 h2 h3 => exact RelP.oom f' _ h1 h2 h3
    | some da =>
      cases hs with
      | ok f' h1 h2 h3 =>
        have hs' := (pushInner_rel f' b).weaken h3
        rw [h1, h2] at hs'
        show RelP f.d.crc f.d.buf.cap f.alloc (f'.pushInner b)
          (match f'.d.pushInner b with
            | some d'' => Dec.PushRes.ok d''
            | none => Dec.PushRes.oom)
        generalize f'.pushInner b = r' at hs'
        generalize f'.d.pushInner b = ra' at hs'
        cases ra' <;> exact hs'
      | oom f' _ h1 h2 h3 => exact RelP.oom f' _ h1 h2 (fun ha => nomatch h3 ha)

theorem pushRep_rel (x : UInt8) (n : Nat) : ∀ (f : DecF),
    RelP f.d.crc f.d.buf.cap f.alloc (f.pushRep x n) (f.d.pushRep x n) := by
  induction n with
  | zero => intro f; exact RelP.ok f rfl rfl (List.suffix_refl _)
  | succ n ih =>
    intro f
    have hs := pushData_rel f x
    unfold DecF.pushRep Dec.pushRep
    generalize f.pushData x = r at hs
    generalize f.d.pushData x = ra at hs
    cases hs with
    | ok f' h1 h2 h3 =>
      have := (ih f').weaken h3
      rw [h1, h2] at this
      exact this
    | oom f' _ h1 h2 h3 =>
      refine RelP.oom f' _ h1 h2 (fun ha => ?_)
      rw [h3 ha]
    | panic s => exact RelP.panic s

theorem pushList_rel (l : List UInt8) : ∀ (f : DecF),
    RelP f.d.crc f.d.buf.cap f.alloc (f.pushList l) (f.d.pushList l) := by
  induction l with
  | nil => intro f; exact RelP.ok f rfl rfl (List.suffix_refl _)
  | cons x l ih =>
    intro f
    have hs := pushData_rel f x
    unfold DecF.pushList Dec.pushList
    generalize f.pushData x = r at hs
    generalize f.d.pushData x = ra at hs
    cases hs with
    | ok f' h1 h2 h3 =>
      have := (ih f').weaken h3
      rw [h1, h2] at this
      exact this
    | oom f' _ h1 h2 h3 =>
      refine RelP.oom f' _ h1 h2 (fun ha => ?_)
      rw [h3 ha]
    | panic s => exact RelP.panic s

/-! ### `push_byte` -/

/-- Relation between the results of an operation on the two decoders (started with capacity `cap`
    and oracle `al`; `oom` is how the operation reports `Err(OutOfMemory)`): the oracle is only
    consumed, and either state and answer agree, or the oracle was not all-`true`, the answer is
    `oom` and the decoder has been reset. -/
def RelK {α : Type} (oom : α) (cap : Option Nat) (al : List Bool) (x : DecF × α) (y : Dec × α) :
    Prop :=
  x.1.alloc <:+ al ∧
    ((x.1.d = y.1 ∧ x.2 = y.2) ∨ (¬ AllTrue al ∧ (∃ c, x.1.d = blank c cap) ∧ x.2 = oom))

theorem RelK.same {α : Type} {oom : α} {cap : Option Nat} {al : List Bool} {x : DecF × α}
    {y : Dec × α} (h1 : x.1.alloc <:+ al) (h2 : x.1.d = y.1) (h3 : x.2 = y.2) :
    RelK oom cap al x y := ⟨h1, Or.inl ⟨h2, h3⟩⟩

theorem afterPush_rel {f0 : DecF} {r : PushResF} {ra : Dec.PushRes} {k : DecF → DecF × Res}
    {ka : Dec → Dec × Res} {c : UInt16} {cap : Option Nat} {al : List Bool}
    (h0 : f0.d.crc = c) (h0c : f0.d.buf.cap = cap) (h0a : f0.alloc <:+ al)
    (hr : RelP c cap al r ra)
    (hk : ∀ f', f'.d.crc = c → f'.d.buf.cap = cap → f'.alloc <:+ al →
      RelK (Res.err .oom) cap al (k f') (ka f'.d)) :
    RelK (Res.err .oom) cap al (afterPush f0 r k) (Dec.afterPush f0.d ra ka) := by
  cases hr with
  | ok f' h1 h2 h3 => exact hk f' h1 h2 h3
  | oom f' _ h1 h2 h3 =>
    by_cases ha : AllTrue al
    · rw [h3 ha]
      refine RelK.same h2 ?_ rfl
      show f'.d = f0.d.reset.1
      rw [h1, reset_eq_blank, h0, h0c]
    · exact ⟨h2, Or.inr ⟨ha, ⟨c, h1⟩, rfl⟩⟩
  | panic s => exact RelK.same h0a rfl rfl

theorem pushLook_rel (f : DecF) (disc init : Nat) (b : UInt8) {cap : Option Nat} :
    RelK (Res.err .oom) cap f.alloc (f.pushLook disc init b) (f.d.pushLook disc init b) :=
  RelK.same (List.suffix_refl _) rfl rfl

theorem pushEnd_rel (f : DecF) (q : Quad) :
    RelK (Res.err .oom) f.d.buf.cap f.alloc (f.pushEnd q) (f.d.pushEnd q) := by
  rcases f with ⟨⟨raw, crc, st, zc, buf⟩, al⟩
  unfold DecF.pushEnd Dec.pushEnd
  dsimp only
  split
  · exact RelK.same (List.suffix_refl _) rfl rfl
  · split
    · exact RelK.same (List.suffix_refl _) rfl rfl
    · have hk := afterPush_rel (f0 := ⟨⟨raw, crcInit, st, zc - q.b.toNat, buf⟩, al⟩)
        (k := fun f' => ({ f' with d := { f'.d with st := .done } }, .ready))
        (ka := fun d => ({ d with st := .done }, .ready)) rfl rfl (List.suffix_refl _)
        (flush_rel _) (fun f' _ _ h3 => RelK.same h3 rfl rfl)
      dsimp only at hk
      generalize Dec.flush _ = o at hk ⊢
      cases o <;> exact hk

theorem pushEscComplete_rel (f : DecF) (q : Quad) :
    RelK (Res.err .oom) f.d.buf.cap f.alloc (f.pushEscComplete q) (f.d.pushEscComplete q) := by
  have hend := pushEnd_rel f q
  rcases f with ⟨⟨raw, crc, st, zc, buf⟩, al⟩
  unfold DecF.pushEscComplete Dec.pushEscComplete
  dsimp only at hend ⊢
  split
  · exact afterPush_rel (f0 := ⟨⟨raw, crcUpdate crc q.toList, st, zc, buf⟩, al⟩) rfl rfl
      (List.suffix_refl _) (pushList_rel _ _) (fun f' _ _ h3 => RelK.same h3 rfl rfl)
  · split
    · split
      · exact RelK.same (List.suffix_refl _) rfl rfl
      · exact RelK.same (List.suffix_refl _) rfl rfl
    · split
      · exact hend
      · split
        · exact afterPush_rel
            (f0 := ⟨⟨raw, crcUpdate crc (q.toList.take ((4 - raw % 4) % 4)), st, zc, buf⟩, al⟩)
            rfl rfl (List.suffix_refl _) (pushRep_rel _ _ _)
            (fun f' _ _ h3 => RelK.same h3 rfl rfl)
        · exact RelK.same (List.suffix_refl _) rfl rfl

theorem pushByte_rel (f : DecF) (b : UInt8) :
    RelK (Res.err .oom) f.d.buf.cap f.alloc (f.pushByte b) (f.d.pushByte b) := by
  rcases f with ⟨⟨raw, crc, st, zc, buf⟩, al⟩
  cases st with
  | look disc init =>
    exact pushLook_rel ⟨⟨raw + 1, crc, .look disc init, zc, buf⟩, al⟩ disc init b
  | normal =>
    unfold DecF.pushByte Dec.pushByte
    dsimp only
    split
    · exact RelK.same (List.suffix_refl _) rfl rfl
    · exact afterPush_rel (f0 := ⟨⟨raw + 1, crcByte crc b, .normal, zc, buf⟩, al⟩) rfl rfl
        (List.suffix_refl _) (pushData_rel _ _) (fun f' _ _ h3 => RelK.same h3 rfl rfl)
  | escChars n =>
    unfold DecF.pushByte Dec.pushByte
    dsimp only
    split
    · exact afterPush_rel (f0 := ⟨⟨raw + 1, crcByte crc b, .escChars n, zc, buf⟩, al⟩) rfl rfl
        (List.suffix_refl _) (pushRep_rel _ _ _) (fun f' h1 h2 h3 =>
          afterPush_rel (f0 := ⟨⟨raw + 1, crcByte crc b, .escChars n, zc, buf⟩, f'.alloc⟩)
            rfl rfl h3 (h1 ▸ h2 ▸ (pushData_rel f' b).weaken h3)
            (fun f'' _ _ g3 => RelK.same g3 rfl rfl))
    · split
      · exact RelK.same (List.suffix_refl _) rfl rfl
      · split
        · exact RelK.same (List.suffix_refl _) rfl rfl
        · exact RelK.same (List.suffix_refl _) rfl rfl
  | escPayload step q =>
    have hc := pushEscComplete_rel
    unfold DecF.pushByte Dec.pushByte
    dsimp only
    cases hq : q.set step b with
    | none => exact RelK.same (List.suffix_refl _) rfl rfl
    | some q' =>
      dsimp only
      split
      · exact RelK.same (List.suffix_refl _) rfl rfl
      · exact hc ⟨⟨raw + 1, crc, .escPayload step q, zc, buf⟩, al⟩ q'
  | done =>
    exact pushLook_rel ⟨⟨0 + 1, crc, .look 0 0, 0, buf.clear⟩, al⟩ 0 0 b

/-! ### `Decoder::push_byte`, histories -/

theorem push_rel (f : DecF) (b : UInt8) :
    RelK (Out.err .oom) f.d.buf.cap f.alloc (f.push b) (f.d.push b) := by
  obtain ⟨h1, h2⟩ := pushByte_rel f b
  unfold DecF.push Dec.push
  rcases hx : f.pushByte b with ⟨f', r⟩
  rcases hy : f.d.pushByte b with ⟨da, ra⟩
  rw [hx] at h1 h2
  rw [hy] at h2
  dsimp only at h1 h2
  rcases h2 with ⟨e1, e2⟩ | ⟨ha, hc, e⟩
  · subst e1 e2
    cases r <;> exact RelK.same h1 rfl rfl
  · subst e
    exact ⟨h1, Or.inr ⟨ha, hc, rfl⟩⟩

/-- the simulation, for one operation of a history -/
theorem step_rel (f : DecF) (op : Op) :
    RelK (OpOut.out (.err .oom)) f.d.buf.cap f.alloc (f.step op) (f.d.step op) := by
  cases op with
  | push b =>
    obtain ⟨h1, h2⟩ := push_rel f b
    refine ⟨h1, ?_⟩
    rcases h2 with ⟨e1, e2⟩ | ⟨ha, hc, e⟩
    · exact Or.inl ⟨e1, congrArg OpOut.out e2⟩
    · exact Or.inr ⟨ha, hc, congrArg OpOut.out e⟩
  | fin => exact RelK.same (List.suffix_refl _) rfl rfl
  | reset => exact RelK.same (List.suffix_refl _) rfl rfl
  | new => exact RelK.same (List.suffix_refl _) rfl rfl
  | fromBuf stale => exact RelK.same (List.suffix_refl _) rfl rfl

/-- the oracle is only consumed -/
theorem step_suffix (f : DecF) (op : Op) : (f.step op).1.alloc <:+ f.alloc := (step_rel f op).1

/-- one operation of the fallible decoder either is the operation of `Dec`, or reports
    `OutOfMemory` (the oracle had a `false`) and leaves a reset decoder of the same capacity -/
theorem step_cases (f : DecF) (op : Op) :
    ((f.step op).1.d = (f.d.step op).1 ∧ (f.step op).2 = (f.d.step op).2) ∨
      (¬ AllTrue f.alloc ∧ (∃ c, (f.step op).1.d = blank c f.d.buf.cap) ∧
        (f.step op).2 = .out (.err .oom)) := (step_rel f op).2

theorem run_nil (f : DecF) : f.run [] = (f, []) := rfl

theorem run_cons (f : DecF) (op : Op) (ops : List Op) :
    f.run (op :: ops) = (((f.step op).1.run ops).1, (f.step op).2 :: ((f.step op).1.run ops).2) :=
  rfl

theorem run_append (ops1 : List Op) : ∀ (f : DecF) (ops2 : List Op),
    f.run (ops1 ++ ops2) =
      (((f.run ops1).1.run ops2).1, (f.run ops1).2 ++ ((f.run ops1).1.run ops2).2) := by
  induction ops1 with
  | nil => intro f ops2; rfl
  | cons op ops ih =>
    intro f ops2
    rw [List.cons_append, run_cons, ih, run_cons]
    rfl

theorem run_snoc (f : DecF) (ops : List Op) (op : Op) :
    f.run (ops ++ [op]) =
      (((f.run ops).1.step op).1, (f.run ops).2 ++ [((f.run ops).1.step op).2]) := by
  rw [run_append]; rfl

theorem run_length (ops : List Op) : ∀ f : DecF, (f.run ops).2.length = ops.length := by
  induction ops with
  | nil => intro f; rfl
  | cons op ops ih => intro f; rw [run_cons]; simp [ih]

theorem run_suffix (ops : List Op) : ∀ f : DecF, (f.run ops).1.alloc <:+ f.alloc := by
  induction ops with
  | nil => intro f; exact List.suffix_refl _
  | cons op ops ih => intro f; rw [run_cons]; exact (ih _).trans (step_suffix f op)

theorem pushAll_nil (f : DecF) : f.pushAll [] = (f, []) := rfl

theorem pushAll_cons (f : DecF) (b : UInt8) (bs : List UInt8) :
    f.pushAll (b :: bs) =
      (((f.push b).1.pushAll bs).1, (f.push b).2 :: ((f.push b).1.pushAll bs).2) := rfl

/-- feeding bytes is the history of `push_byte` calls -/
theorem pushAll_eq_run (s : List UInt8) : ∀ f : DecF,
    (f.pushAll s).1 = (f.run (s.map Op.push)).1 ∧
    (f.pushAll s).2.map OpOut.out = (f.run (s.map Op.push)).2 := by
  induction s with
  | nil => intro f; exact ⟨rfl, rfl⟩
  | cons b bs ih =>
    intro f
    rw [pushAll_cons, List.map_cons, run_cons]
    have := ih (f.push b).1
    exact ⟨this.1, by simp only [List.map_cons, this.2]; rfl⟩

/-! ### (1) an allocator that never fails: `DecF` is `Dec` -/

theorem step_allTrue {f : DecF} (h : AllTrue f.alloc) (op : Op) :
    (f.step op).1.d = (f.d.step op).1 ∧ (f.step op).2 = (f.d.step op).2 ∧
      AllTrue (f.step op).1.alloc := by
  rcases step_cases f op with ⟨e1, e2⟩ | ⟨hn, _⟩
  · exact ⟨e1, e2, h.suffix (step_suffix f op)⟩
  · exact absurd h hn

theorem run_allTrue (ops : List Op) : ∀ {f : DecF}, AllTrue f.alloc →
    (f.run ops).1.d = (f.d.run ops).1 ∧ (f.run ops).2 = (f.d.run ops).2 ∧
      AllTrue (f.run ops).1.alloc := by
  induction ops with
  | nil => intro f h; exact ⟨rfl, rfl, h⟩
  | cons op ops ih =>
    intro f h
    obtain ⟨e1, e2, e3⟩ := step_allTrue h op
    obtain ⟨g1, g2, g3⟩ := ih e3
    rw [run_cons, Dec.run_cons]
    rw [e1] at g1 g2
    exact ⟨g1, by rw [e2, g2], g3⟩

/-! ### (2) C05: the invariant `Dec.Inv` is kept, nothing panics -/

theorem step_inv {f : DecF} (h : Dec.Inv f.d) (op : Op) : Dec.Inv (f.step op).1.d := by
  rcases step_cases f op with ⟨e1, _⟩ | ⟨_, ⟨c, hc⟩, _⟩
  · rw [e1]; exact Dec.step_inv h op
  · rw [hc]; exact inv_blank _ _

theorem step_cap {f : DecF} (h : Dec.Inv f.d) (op : Op) :
    (f.step op).1.d.buf.cap = f.d.buf.cap := by
  rcases step_cases f op with ⟨e1, _⟩ | ⟨_, ⟨c, hc⟩, _⟩
  · rw [e1]; exact Dec.step_cap h op
  · rw [hc]; rfl

theorem step_no_panic {f : DecF} (h : Dec.Inv f.d) (op : Op) (s : String) :
    (f.step op).2 ≠ .out (.panic s) := by
  rcases step_cases f op with ⟨_, e2⟩ | ⟨_, _, e⟩
  · rw [e2]; exact Dec.step_no_panic h op s
  · rw [e]; simp

theorem run_inv (ops : List Op) : ∀ {f : DecF}, Dec.Inv f.d → Dec.Inv (f.run ops).1.d := by
  induction ops with
  | nil => intro f h; exact h
  | cons op ops ih => intro f h; rw [run_cons]; exact ih (step_inv h op)

theorem run_cap (ops : List Op) : ∀ {f : DecF}, Dec.Inv f.d →
    (f.run ops).1.d.buf.cap = f.d.buf.cap := by
  induction ops with
  | nil => intro f h; rfl
  | cons op ops ih =>
    intro f h; rw [run_cons]; exact (ih (step_inv h op)).trans (step_cap h op)

theorem run_no_panic (ops : List Op) : ∀ {f : DecF}, Dec.Inv f.d →
    ∀ o ∈ (f.run ops).2, ∀ s, o ≠ OpOut.out (Out.panic s) := by
  induction ops with
  | nil => intro f h o ho; simp [run_nil] at ho
  | cons op ops ih =>
    intro f h o ho s
    rw [run_cons] at ho
    rcases List.mem_cons.1 ho with rfl | ho
    · exact step_no_panic h op s
    · exact ih (step_inv h op) o ho s

/-! ### (3) C14: after `OutOfMemory` (and after every other boundary answer) the decoder is as good
as new -/

/-- after every operation the decoder is either equivalent to a new one, or the operation
returned `Ok(None)`, a `DiscardedBytes` error, or panicked -/
theorem step_fresh_or (f : DecF) (op : Op) :
    (f.step op).1.d.norm = Dec.fresh (f.step op).1.d.buf.cap ∨ (f.step op).2 = .out .none ∨
      (∃ n, (f.step op).2 = .out (.err (.discarded n))) ∨
      ∃ s, (f.step op).2 = .out (.panic s) := by
  rcases step_cases f op with ⟨e1, e2⟩ | ⟨_, ⟨c, hc⟩, _⟩
  · rw [e1, e2]; exact Dec.step_fresh_or f.d op
  · rw [hc]; exact Or.inl rfl

/-- in the states `LookingForMessageStart` and `Done` an operation never touches the buffer,
hence never the oracle -/
theorem pushByte_idle (raw : Nat) (crc : UInt16) (st : DState) (zc : Nat) (buf : Buf)
    (al : List Bool) (b : UInt8) (h : (∃ x y, st = .look x y) ∨ st = .done) :
    DecF.pushByte ⟨⟨raw, crc, st, zc, buf⟩, al⟩ b =
      (⟨(Dec.pushByte ⟨raw, crc, st, zc, buf⟩ b).1, al⟩,
        (Dec.pushByte ⟨raw, crc, st, zc, buf⟩ b).2) := by
  rcases h with ⟨x, y, rfl⟩ | rfl <;> rfl

theorem step_idle {f : DecF} (h : (∃ x y, f.d.st = .look x y) ∨ f.d.st = .done) (op : Op) :
    f.step op = (⟨(f.d.step op).1, f.alloc⟩, (f.d.step op).2) := by
  rcases f with ⟨⟨raw, crc, st, zc, buf⟩, al⟩
  cases op with
  | push b =>
    simp only [DecF.step, Dec.step, DecF.push, Dec.push]
    rw [pushByte_idle raw crc st zc buf al b h]
    rcases Dec.pushByte ⟨raw, crc, st, zc, buf⟩ b with ⟨d', r⟩
    cases r <;> rfl
  | fin => rfl
  | reset => rfl
  | new => rfl
  | fromBuf stale => rfl

/-- one operation on a state and on its normal form (`Dec.norm`, C14): same answer, equivalent
successors, same remaining oracle -/
theorem step_norm (f : DecF) (op : Op) :
    (f.step op).2 = (DecF.step ⟨f.d.norm, f.alloc⟩ op).2 ∧
      (f.step op).1.d.norm = (DecF.step ⟨f.d.norm, f.alloc⟩ op).1.d.norm ∧
      (f.step op).1.alloc = (DecF.step ⟨f.d.norm, f.alloc⟩ op).1.alloc := by
  rcases f with ⟨⟨raw, crc, st, zc, buf⟩, al⟩
  cases st with
  | normal => exact ⟨rfl, rfl, rfl⟩
  | escChars n => exact ⟨rfl, rfl, rfl⟩
  | escPayload step q => exact ⟨rfl, rfl, rfl⟩
  | look x y =>
    have h := Dec.step_norm ⟨raw, crc, .look x y, zc, buf⟩ op
    rw [step_idle (Or.inl ⟨x, y, rfl⟩), step_idle (Or.inl ⟨x, y, rfl⟩)]
    exact ⟨h.1, h.2, rfl⟩
  | done =>
    have h := Dec.step_norm ⟨raw, crc, .done, zc, buf⟩ op
    rw [step_idle (Or.inr rfl), step_idle (Or.inl ⟨0, 0, rfl⟩)]
    exact ⟨h.1, h.2, rfl⟩

/-- equal up to dead fields of the decoder (`Dec.Equiv`, C14), same oracle -/
def Equiv (f g : DecF) : Prop := Dec.Equiv f.d g.d ∧ f.alloc = g.alloc

theorem Equiv.refl (f : DecF) : Equiv f f := ⟨rfl, rfl⟩

/-- `Equiv` is a bisimulation -/
theorem step_equiv {f g : DecF} (h : Equiv f g) (op : Op) :
    (f.step op).2 = (g.step op).2 ∧ Equiv (f.step op).1 (g.step op).1 := by
  have h1 := step_norm f op
  have h2 := step_norm g op
  obtain ⟨hd, ha⟩ := h
  unfold Dec.Equiv at hd
  rw [hd, ha] at h1
  exact ⟨h1.1.trans h2.1.symm, h1.2.1.trans h2.2.1.symm, h1.2.2.trans h2.2.2.symm⟩

theorem run_equiv (ops : List Op) : ∀ {f g : DecF}, Equiv f g →
    (f.run ops).2 = (g.run ops).2 ∧ Equiv (f.run ops).1 (g.run ops).1 := by
  induction ops with
  | nil => intro f g h; exact ⟨rfl, h⟩
  | cons op ops ih =>
    intro f g h
    have hs := step_equiv h op
    have := ih hs.2
    rw [run_cons, run_cons]
    exact ⟨by rw [hs.1, this.1], this.2⟩

/-- after an answer that is neither `Ok(None)` nor `DiscardedBytes` (nor a panic) — in particular
after `OutOfMemory`, whether caused by the allocator or by a full buffer — the decoder is
equivalent to a new one over the same capacity, with the oracle that remains -/
theorem step_boundary_equiv {f : DecF} (hinv : Dec.Inv f.d) (op : Op)
    (h1 : (f.step op).2 ≠ .out .none) (h2 : ∀ n, (f.step op).2 ≠ .out (.err (.discarded n)))
    (h3 : ∀ s, (f.step op).2 ≠ .out (.panic s)) :
    Equiv (f.step op).1 ⟨Dec.fresh f.d.buf.cap, (f.step op).1.alloc⟩ := by
  refine ⟨?_, rfl⟩
  show Dec.norm _ = Dec.norm _
  rw [Dec.norm_fresh]
  rcases step_fresh_or f op with hf | hf | ⟨n, hf⟩ | ⟨s, hf⟩
  · rw [hf, step_cap hinv op]
  · exact absurd hf h1
  · exact absurd hf (h2 n)
  · exact absurd hf (h3 s)

/-- ... hence every continuation is answered exactly as by a new decoder in a world whose
allocator goes on with the remaining oracle -/
theorem run_after_boundary {f : DecF} (hinv : Dec.Inv f.d) (ops : List Op)
    (h : ∃ o, (f.run ops).2.getLast? = some o ∧ o ≠ .out .none ∧
      (∀ n, o ≠ .out (.err (.discarded n))) ∧ ∀ s, o ≠ .out (.panic s))
    (c : List Op) :
    ((f.run ops).1.run c).2 =
      (DecF.run ⟨Dec.fresh f.d.buf.cap, (f.run ops).1.alloc⟩ c).2 := by
  obtain ⟨o, hlast, h1, h2, h3⟩ := h
  rcases List.eq_nil_or_concat ops with rfl | ⟨ops', op, rfl⟩
  · simp [run_nil] at hlast
  · rw [List.concat_eq_append, run_snoc] at hlast ⊢
    simp only [List.getLast?_append, List.getLast?_singleton, Option.some_or] at hlast
    have ho := Option.some.inj hlast
    have hinv' := run_inv ops' hinv
    have := step_boundary_equiv hinv' op (ho ▸ h1) (fun n => ho ▸ h2 n) (fun s => ho ▸ h3 s)
    rw [run_cap ops' hinv] at this
    exact (run_equiv c this).1

/-! ### (4) C02: soundness -/

theorem sinv_step {c : List UInt8} {f : DecF} (h : Dec.SInv c f.d) (op : Op) :
    Dec.SInv (Dec.consStep c op) (f.step op).1.d := by
  rcases step_cases f op with ⟨e1, _⟩ | ⟨_, ⟨cr, hc⟩, _⟩
  · rw [e1]; exact Dec.sinv_step h op
  · rw [hc]; exact sinv_blank _ _ _

/-- a reported payload is the payload of a frame that ends with the byte just pushed -/
theorem step_msg {c : List UInt8} {f : DecF} (h : Dec.SInv c f.d) {x : UInt8} {m : List UInt8}
    (hm : (f.step (.push x)).2 = .out (.msg m)) : ∃ pre, c ++ [x] = pre ++ Spec.frame m := by
  rcases step_cases f (.push x) with ⟨_, e2⟩ | ⟨_, _, e⟩
  · rw [e2] at hm
    have hm' : (f.d.push x).2 = .msg m := by simpa [Dec.step] using hm
    exact Dec.push_msg h hm'
  · rw [e] at hm; cases hm

theorem sound_run (ops : List Op) : ∀ {c : List UInt8} {f : DecF} (i : Nat) {m : List UInt8},
    Dec.SInv c f.d → (f.run ops).2[i]? = some (OpOut.out (Out.msg m)) →
    ∃ pre, (ops.take (i + 1)).foldl Dec.consStep c = pre ++ Spec.frame m := by
  induction ops with
  | nil => intro c f i m _ h; simp [run_nil] at h
  | cons op ops ih =>
    intro c f i m hs h
    rw [run_cons] at h
    cases i with
    | zero =>
      simp only [List.getElem?_cons_zero, Option.some.injEq] at h
      cases op with
      | push x => simpa [Dec.consStep] using step_msg hs h
      | fin => simp [DecF.step] at h
      | reset => simp [DecF.step] at h
      | new => simp [DecF.step] at h
      | fromBuf stale => simp [DecF.step] at h
    | succ i =>
      simp only [List.getElem?_cons_succ] at h
      have := ih i (sinv_step hs op) h
      simpa using this

/-! ### C17: the reports still tile the stream (an `OutOfMemory` ends the tile of its frame) -/

theorem tinv_step {b i : Nat} {f : DecF} (h : Dec.TInv b i f.d) (op : Op) :
    ∃ b', Spec.tileOpStep b i (f.step op).2 = some (b', i + Spec.pushCount [op]) ∧
      Dec.TInv b' (i + Spec.pushCount [op]) (f.step op).1.d := by
  rcases step_cases f op with ⟨e1, e2⟩ | ⟨_, ⟨c, hc⟩, e⟩
  · rw [e1, e2]; exact Dec.tinv_step h op
  · rw [hc, e]
    cases op with
    | push x => exact ⟨i + 1, rfl, tinv_blank _ _ _⟩
    | fin => simp [DecF.step] at e
    | reset => simp [DecF.step] at e
    | new => simp [DecF.step] at e
    | fromBuf stale => simp [DecF.step] at e

theorem tinv_run (ops : List Op) : ∀ {b i : Nat} {f : DecF}, Dec.TInv b i f.d →
    ∃ b', Spec.tileOps b i (f.run ops).2 = some (b', i + Spec.pushCount ops) ∧
      Dec.TInv b' (i + Spec.pushCount ops) (f.run ops).1.d := by
  induction ops with
  | nil => intro b i f h; exact ⟨b, rfl, h⟩
  | cons op ops ih =>
    intro b i f h
    obtain ⟨b1, e1, h1⟩ := tinv_step h op
    obtain ⟨b2, e2, h2⟩ := ih h1
    rw [Dec.pushCount_cons, ← Nat.add_assoc]
    exact ⟨b2, by simp only [run_cons, Spec.tileOps, e1, e2], h2⟩

/-! ### byte streams -/

theorem pushAll_inv (s : List UInt8) {f : DecF} (h : Dec.Inv f.d) : Dec.Inv (f.pushAll s).1.d := by
  rw [(pushAll_eq_run s f).1]; exact run_inv _ h

theorem pushAll_no_panic (s : List UInt8) {f : DecF} (h : Dec.Inv f.d) :
    ∀ o ∈ (f.pushAll s).2, ∀ t, o ≠ Out.panic t := by
  intro o ho t hc
  have hm : OpOut.out o ∈ (f.run (s.map Op.push)).2 := by
    rw [← (pushAll_eq_run s f).2]; exact List.mem_map_of_mem ho
  exact run_no_panic _ h _ hm t (by rw [hc])

theorem pushAll_allTrue (s : List UInt8) {f : DecF} (h : AllTrue f.alloc) :
    (f.pushAll s).1.d = (f.d.pushAll s).1 ∧ (f.pushAll s).2 = (f.d.pushAll s).2 := by
  obtain ⟨e1, e2, _⟩ := run_allTrue (s.map Op.push) h
  refine ⟨?_, ?_⟩
  · rw [(pushAll_eq_run s f).1, e1, (Dec.pushAll_eq_run s f.d).1]
  · apply (List.map_inj_right (f := OpOut.out) (fun _ _ h => OpOut.out.inj h)).1
    rw [(pushAll_eq_run s f).2, e2, (Dec.pushAll_eq_run s f.d).2]

theorem sound_pushAll (s : List UInt8) : ∀ {c : List UInt8} {f : DecF} (i : Nat) {m : List UInt8},
    Dec.SInv c f.d → (f.pushAll s).2[i]? = some (Out.msg m) →
    ∃ pre, c ++ s.take (i + 1) = pre ++ Spec.frame m := by
  induction s with
  | nil => intro c f i m _ h; simp [pushAll_nil] at h
  | cons x xs ih =>
    intro c f i m hs h
    rw [pushAll_cons] at h
    cases i with
    | zero =>
      simp only [List.getElem?_cons_zero, Option.some.injEq] at h
      have hm : (f.step (.push x)).2 = .out (.msg m) := by
        show OpOut.out (f.push x).2 = _
        rw [h]
      simpa using step_msg hs hm
    | succ i =>
      simp only [List.getElem?_cons_succ] at h
      have := ih i (sinv_step hs (.push x)) h
      simpa [Dec.consStep] using this

end DecF

end Sml

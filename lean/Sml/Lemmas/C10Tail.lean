import Sml.Props.C10
import Sml.Lemmas.C08Cut
import Sml.Lemmas.DecSound1
/-
  Property C10 for streams that do NOT end in start-free noise (review item M5).

  `C10.reader_results` & co. require `StartFree tail`.  The commonest real ending of a captured
  stream is an UNFINISHED TRANSMISSION: start-free noise `g`, then the first `k` bytes of a frame.
  Here, for `stream gs tail` with such tails:

  * `reader_results_tail_cut`  : `tail = g ++ (frame m1).take k`, cut ANYWHERE after the start
      sequence (`8 ≤ k < |frame m1|`, also in the middle of an escape sequence or of the checksum):
      `delivered gs`, then `DiscardedBytes(|g|)` (if `g ≠ []`), then `IoErr(Eof, k)`, then `None`
      forever;  `reader_results_calls_tail_cut`: the same for any interleaving of the four entry
      points;
  * `reader_results_tail_partial_start` : `k < 8` (the cut falls inside the start sequence): the
      tail is start-free noise (`startFree_append_partial`), one `IoErr(Eof, |g| + k)`;
  * `reader_results_tail_cut_cut` : the doubled start, `tail = g ++ a1 ++ a2` with `a1` a cut-off
      transmission in state `Normal` (e.g. just the start sequence `START`, `k1 = 8`) and `a2` a
      second unfinished transmission: `DiscardedBytes(|g|)`, `DiscardedBytes(|a1|)`,
      `IoErr(Eof, |a2|)`;
  * `reader_results_tail_start` : `tail = g ++ START ++ r` for ARBITRARY `r`: the noise report, then
      whatever the decoder in its post-START state makes of `r` (compositional form).

  The only capacity hypothesis about the unfinished part is `C08.NoOom` (it does not itself run out
  of memory; implied by `fitsCap cap |m1|`, always true for `Vec`).
-/
namespace Sml.C10

open Spec (frame tileFrom)
open C07 (fitsCap)
open C08 (StartFree NoOom afterStart)
open RF (view)

/-! ### 0. what a tail contributes -/

/-- the contribution of the end `t` of the stream, fed to a new decoder: the items `xs` it
produces and the number `r` of bytes `reset` (and hence `finalize`, `IoErr(Eof, _)`) reports
afterwards -/
def TailRes (cap : Option Nat) (t : List UInt8) (xs : List Item) (r : Nat) : Prop :=
  C15.items (Dec.pushAll (Dec.fresh cap) t).2 = xs ∧ (Dec.pushAll (Dec.fresh cap) t).1.reset.2 = r

/-- what the reader reports at end of input for a leftover count `r` -/
def eofItems (r : Nat) : List RItem := if r = 0 then [] else [RItem.ioErr .eof r]

theorem finalRItem_of_reset {d : Dec} (h : Dec.Inv d) : C15.finalRItem d = eofItems d.reset.2 := by
  unfold C15.finalRItem eofItems
  rw [Dec.finalize_eq_reset h]
  by_cases h0 : d.reset.2 = 0
  · simp [h0]
  · simp [h0]

/-- the whole stream through the push decoder, for any tail -/
theorem stream_decodes_tail (cap : Option Nat) (gs : List (List UInt8 × List UInt8))
    (hg : ∀ gp ∈ gs, StartFree gp.1 ∧ fitsCap cap gp.2.length)
    (tail : List UInt8) (xs : List Item) (r : Nat) (ht : TailRes cap tail xs r) :
    C15.items (Dec.pushAll (Dec.fresh cap) (stream gs tail)).2 = gs.flatMap E2E.segItems ++ xs ∧
      (Dec.pushAll (Dec.fresh cap) (stream gs tail)).1.reset.2 = r ∧
      C15.finalRItem (Dec.pushAll (Dec.fresh cap) (stream gs tail)).1 = eofItems r := by
  obtain ⟨h1, h2⟩ := E2E.segments cap gs hg (Dec.fresh cap) (Dec.Equiv.refl _)
  have he := E2E.pushAll_equiv tail h2
  have hinv : Dec.Inv (Dec.pushAll (Dec.fresh cap) (stream gs tail)).1 :=
    Dec.pushAll_inv _ (Dec.inv_fresh cap)
  have hr : (Dec.pushAll (Dec.fresh cap) (stream gs tail)).1.reset.2 = r := by
    show (Dec.pushAll (Dec.fresh cap) (E2E.frames gs ++ tail)).1.reset.2 = r
    rw [Dec.pushAll_append]
    exact (E2E.reset_equiv he.2).trans ht.2
  refine ⟨?_, hr, ?_⟩
  · show C15.items (Dec.pushAll (Dec.fresh cap) (E2E.frames gs ++ tail)).2 = _
    rw [Dec.pushAll_append]
    show C15.items (_ ++ _) = _
    unfold C15.items at h1 ⊢
    rw [List.filterMap_append, h1, he.1]
    exact congrArg _ ht.1
  · rw [finalRItem_of_reset hinv, hr]

/-- `next`, any number of calls, any tail with a known contribution -/
theorem reader_results_of_tail (kind : SrcKind) (hk : kind = .mem ∨ kind = .io) (cap : Option Nat)
    (gs : List (List UInt8 × List UInt8))
    (hg : ∀ gp ∈ gs, StartFree gp.1 ∧ fitsCap cap gp.2.length)
    (tail : List UInt8) (xs : List Item) (r : Nat) (ht : TailRes cap tail xs r) (n : Nat) :
    ((Rdr.new kind cap ((stream gs tail).map Ev.byte)).calls (List.replicate n .next)).2 =
      padTo RItem.none (delivered gs ++ xs.map Item.toR ++ eofItems r) n := by
  obtain ⟨h1, _, h3⟩ := stream_decodes_tail cap gs hg tail xs r ht
  rw [C15.reader_eq kind hk, h1, h3, List.map_append, E2E.map_toR_segItems]
  rfl

/-- all four entry points, any interleaving, any tail with a known contribution -/
theorem reader_results_calls_of_tail (kind : SrcKind) (hk : kind = .mem ∨ kind = .io)
    (cap : Option Nat) (gs : List (List UInt8 × List UInt8))
    (hg : ∀ gp ∈ gs, StartFree gp.1 ∧ fitsCap cap gp.2.length)
    (tail : List UInt8) (xs : List Item) (r : Nat) (ht : TailRes cap tail xs r)
    (cs : List Rdr.Call) :
    ((Rdr.new kind cap ((stream gs tail).map Ev.byte)).calls cs).2 =
      List.zipWith view cs
        (padTo (RItem.ioErr .eof 0) (delivered gs ++ xs.map Item.toR ++ [RItem.ioErr .eof r])
          cs.length) := by
  obtain ⟨h1, h2, _⟩ := stream_decodes_tail cap gs hg tail xs r ht
  unfold C15.items at h1
  rw [E2E.new_eq, E2E.calls_bytes (E2E.ne_eh hk), h1, h2, List.map_append, E2E.map_toR_segItems]
  rfl

/-! ### 1. an unfinished transmission, cut anywhere -/

theorem tileFrom_replicate_none (b i n : Nat) : tileFrom b i (List.replicate n Out.none) = some b := by
  induction n generalizing i with
  | zero => rfl
  | succ n ih => rw [List.replicate_succ]; simp only [tileFrom, Spec.tileStep]; exact ih (i + 1)

/-- Any proper prefix `a` of a frame on which the decoder does not run out of memory is consumed
silently, and afterwards `reset` returns `|a|` (so `finalize` reports `DiscardedBytes(|a|)`). -/
theorem cut_any (cap : Option Nat) (m : List UInt8) (k : Nat) (hk : k < (frame m).length)
    (hroom : NoOom cap ((frame m).take k)) :
    (Dec.pushAll (Dec.fresh cap) ((frame m).take k)).2 =
        List.replicate ((frame m).take k).length Out.none ∧
      (Dec.pushAll (Dec.fresh cap) ((frame m).take k)).1.reset.2 = ((frame m).take k).length := by
  obtain ⟨d', hd, _⟩ := Dec.frame_delivers (Dec.fresh none) m rfl rfl rfl trivial
  have hal : ((frame m).take k).length = k := by rw [List.length_take]; omega
  have hun : (Dec.pushAll (Dec.fresh none) ((frame m).take k)).2 =
      List.replicate ((frame m).take k).length Out.none := by
    rw [Dec.pushAll_take, hd.pushAll, hal, List.take_append_of_le_length (by simp; omega)]
    simp
    omega
  have e : Dec.fresh cap = (Dec.fresh none).withCapR cap := rfl
  have hout : (Dec.pushAll (Dec.fresh cap) ((frame m).take k)).2 =
      List.replicate ((frame m).take k).length Out.none := by
    rcases Dec.pushAll_rel cap ((frame m).take k) (Dec.fresh none) rfl (Dec.fitsCap_zero cap) with
      ⟨g1, _⟩ | ⟨i, hi, g1, _⟩
    · rw [e, g1]; exact hun
    · exfalso
      apply hroom
      have hmem : Out.err DecErr.oom ∈
          (Dec.pushAll (Dec.fresh cap) (((frame m).take k).take (i + 1))).2 := by
        rw [e, g1]; simp
      rw [Dec.pushAll_take] at hmem
      exact List.mem_of_mem_take hmem
  refine ⟨hout, ?_⟩
  obtain ⟨b', hb, ht⟩ := Dec.tinv_pushAll ((frame m).take k) (Dec.tinv_fresh cap)
  rw [hout, tileFrom_replicate_none] at hb
  cases hb
  have := (Dec.tinv_reset_count ht).1
  simp only [Spec.tileReset, decide_eq_true_eq] at this
  omega

/-- ... and, if the start sequence is complete, the same holds for the rest `t` of `a` from the
post-START state -/
theorem cut_any_tail (cap : Option Nat) (m : List UInt8) (k : Nat) (h8 : 8 ≤ k)
    (hk : k < (frame m).length) (hroom : NoOom cap ((frame m).take k)) :
    let t := ((frame m).drop 8).take (k - 8)
    (Dec.pushAll (afterStart (Dec.fresh cap)) t).2 = List.replicate (((frame m).take k).length - 8) Out.none ∧
      (Dec.pushAll (afterStart (Dec.fresh cap)) t).1.reset.2 = ((frame m).take k).length := by
  intro t
  obtain ⟨c1, c2⟩ := cut_any cap m k hk hroom
  have hsplit := C08.take_frame_split m k h8
  have hs := start_decodes (Dec.fresh cap) rfl
  have hrun : Dec.pushAll (Dec.fresh cap) ((frame m).take k) =
      ((Dec.pushAll (afterStart (Dec.fresh cap)) t).1,
        List.replicate 8 Out.none ++ (Dec.pushAll (afterStart (Dec.fresh cap)) t).2) := by
    rw [hsplit, Dec.pushAll_append, hs]
  have hal : ((frame m).take k).length = k := by rw [List.length_take]; omega
  rw [hrun] at c1 c2
  refine ⟨?_, c2⟩
  simp only at c1
  have e : List.replicate ((frame m).take k).length Out.none =
      List.replicate 8 Out.none ++ List.replicate (((frame m).take k).length - 8) Out.none := by
    rw [List.replicate_append_replicate]; congr 1; omega
  rw [e] at c1
  exact List.append_cancel_left c1

/-- the noise report as an item -/
def noiseItems (g : List UInt8) : List Item :=
  if g = [] then [] else [Item.err (.discarded g.length)]

theorem items_noise_start (g : List UInt8) (n : Nat) :
    C15.items (List.replicate (g.length + 7) Out.none ++
      [if g = [] then Out.none else Out.err (.discarded g.length)] ++
      List.replicate n Out.none) = noiseItems g := by
  unfold C15.items noiseItems
  simp only [List.filterMap_append, E2E.filterMap_replicate_none, List.nil_append, List.append_nil]
  by_cases h0 : g = []
  · simp [h0, Out.toItem?]
  · simp [h0, Out.toItem?]

theorem items_restart (e : DecErr) (n : Nat) :
    C15.items ((List.replicate 7 Out.none ++ [Out.err e]) ++ List.replicate n Out.none) =
      [Item.err e] := by
  unfold C15.items
  rw [List.filterMap_append, List.filterMap_append, E2E.filterMap_replicate_none,
    E2E.filterMap_replicate_none]
  rfl

/-- start-free noise, then the first `k ≥ 8` bytes of a frame -/
theorem tailRes_cut (cap : Option Nat) (g m1 : List UInt8) (k : Nat) (hg : StartFree g)
    (h8 : 8 ≤ k) (hk : k < (frame m1).length) (hroom : NoOom cap ((frame m1).take k)) :
    TailRes cap (g ++ (frame m1).take k) (noiseItems g) ((frame m1).take k).length := by
  obtain ⟨t1, t2⟩ := cut_any_tail cap m1 k h8 hk hroom
  have hns := Resync.noise_start (Dec.fresh cap) rfl g hg
  have hsplit : g ++ (frame m1).take k = (g ++ START) ++ ((frame m1).drop 8).take (k - 8) := by
    rw [C08.take_frame_split m1 k h8]; simp
  unfold TailRes
  rw [hsplit, Dec.pushAll_append, hns]
  simp only
  refine ⟨?_, t2⟩
  rw [t1]
  exact items_noise_start g _

/-- A stream that ends in an unfinished transmission: files (with start-free noise in between),
then start-free noise `g`, then the first `k` bytes of the frame of `m1`, cut anywhere after the
start sequence.  `n` calls of `next`: the files, `DiscardedBytes(|g|)` if `g ≠ []` (reported when
the start sequence of the unfinished transmission is complete), `IoErr(Eof, k)` for the unfinished
transmission itself, then `None` forever. -/
theorem reader_results_tail_cut (kind : SrcKind) (hk : kind = .mem ∨ kind = .io) (cap : Option Nat)
    (gs : List (List UInt8 × List UInt8))
    (hg : ∀ gp ∈ gs, StartFree gp.1 ∧ fitsCap cap gp.2.length)
    (g m1 : List UInt8) (k : Nat) (hgn : StartFree g) (h8 : 8 ≤ k) (hkl : k < (frame m1).length)
    (hroom : NoOom cap ((frame m1).take k)) (n : Nat) :
    ((Rdr.new kind cap ((stream gs (g ++ (frame m1).take k)).map Ev.byte)).calls
        (List.replicate n .next)).2 =
      padTo RItem.none
        (delivered gs ++ (if g = [] then [] else [RItem.decErr (.discarded g.length)]) ++
          [RItem.ioErr .eof k]) n := by
  have hal : ((frame m1).take k).length = k := by rw [List.length_take]; omega
  rw [reader_results_of_tail kind hk cap gs hg _ _ _ (tailRes_cut cap g m1 k hgn h8 hkl hroom), hal]
  congr 2
  · unfold noiseItems; split <;> rfl
  · unfold eofItems; rw [if_neg (by omega)]

/-- the same for any interleaving of `read` / `next` / `read_nb` / `next_nb` -/
theorem reader_results_calls_tail_cut (kind : SrcKind) (hk : kind = .mem ∨ kind = .io)
    (cap : Option Nat) (gs : List (List UInt8 × List UInt8))
    (hg : ∀ gp ∈ gs, StartFree gp.1 ∧ fitsCap cap gp.2.length)
    (g m1 : List UInt8) (k : Nat) (hgn : StartFree g) (h8 : 8 ≤ k) (hkl : k < (frame m1).length)
    (hroom : NoOom cap ((frame m1).take k)) (cs : List Rdr.Call) :
    ((Rdr.new kind cap ((stream gs (g ++ (frame m1).take k)).map Ev.byte)).calls cs).2 =
      List.zipWith view cs
        (padTo (RItem.ioErr .eof 0)
          (delivered gs ++ (if g = [] then [] else [RItem.decErr (.discarded g.length)]) ++
            [RItem.ioErr .eof k]) cs.length) := by
  have hal : ((frame m1).take k).length = k := by rw [List.length_take]; omega
  rw [reader_results_calls_of_tail kind hk cap gs hg _ _ _
    (tailRes_cut cap g m1 k hgn h8 hkl hroom), hal]
  congr 4
  unfold noiseItems; split <;> rfl

/-- the form asked for in the review: the cut point is one where the decoder is in state `Normal`
(hypotheses as in `C08.cut_then_frame_idle`) -/
theorem reader_results_tail_cut_normal (kind : SrcKind) (hk : kind = .mem ∨ kind = .io)
    (cap : Option Nat) (gs : List (List UInt8 × List UInt8))
    (hg : ∀ gp ∈ gs, StartFree gp.1 ∧ fitsCap cap gp.2.length)
    (g m1 : List UInt8) (k : Nat) (hgn : StartFree g)
    (hstate : (Dec.pushAll (Dec.fresh none) ((frame m1).take k)).1.st = .normal)
    (hroom : NoOom cap ((frame m1).take k)) (n : Nat) :
    ((Rdr.new kind cap ((stream gs (g ++ (frame m1).take k)).map Ev.byte)).calls
        (List.replicate n .next)).2 =
      padTo RItem.none
        (delivered gs ++ (if g = [] then [] else [RItem.decErr (.discarded g.length)]) ++
          [RItem.ioErr .eof ((frame m1).take k).length]) n := by
  obtain ⟨_, _, _, _, _, c6⟩ := C08.cut_facts cap m1 k hstate hroom
  have hkl : k < (frame m1).length := by
    obtain ⟨d', hd, _⟩ := Dec.frame_delivers (Dec.fresh none) m1 rfl rfl rfl trivial
    obtain ⟨_, _, _, _, _, _, hdone, _⟩ := id hd
    rcases Nat.lt_or_ge k (frame m1).length with h | h
    · exact h
    · rw [List.take_of_length_le h, hd.pushAll, hdone] at hstate
      cases hstate
  have hal : ((frame m1).take k).length = k := by rw [List.length_take]; omega
  rw [hal]
  exact reader_results_tail_cut kind hk cap gs hg g m1 k hgn c6 hkl hroom n

/-! ### 2. the cut falls inside the start sequence -/

theorem overlap_impossible : ∀ l < 8, ∀ k < 8, 1 ≤ l →
    (START.take k ++ START).take (8 - l) ≠ START.drop l := by decide

theorem partial_alone : ∀ k < 8, ∀ j < k, ¬ (START <+: (START.take k ++ START).drop j) := by decide

/-- start-free noise followed by a proper prefix of the start sequence is start-free noise -/
theorem startFree_append_partial (g : List UInt8) (hg : StartFree g) (k : Nat) (hk : k < 8) :
    StartFree (g ++ START.take k) := by
  intro j hj hpre
  have hPl : (START.take k).length = k := by simp [START]; omega
  rw [List.length_append, hPl] at hj
  rcases Nat.lt_or_ge j g.length with hlt | hge
  · -- the occurrence begins inside `g`
    apply hg j hlt
    have e1 : (g ++ START.take k ++ START).drop j = g.drop j ++ (START.take k ++ START) := by
      rw [List.append_assoc, List.drop_append_of_le_length (by omega)]
    have e2 : (g ++ START).drop j = g.drop j ++ START := by
      rw [List.drop_append_of_le_length (by omega)]
    rw [e1] at hpre
    rw [e2]
    have hl : 1 ≤ (g.drop j).length := by rw [List.length_drop]; omega
    generalize g.drop j = h at hpre hl ⊢
    rcases Nat.lt_or_ge h.length 8 with h8 | h8
    · exfalso
      obtain ⟨x, hx⟩ := hpre
      have hd : START.drop h.length ++ x = START.take k ++ START := by
        have := congrArg (List.drop h.length) hx
        rwa [List.drop_append_of_le_length (by simp [START]; omega), List.drop_left] at this
      have h2 : (START.take k ++ START).take (8 - h.length) = START.drop h.length := by
        rw [← hd, List.take_left' (by simp [START])]
      exact overlap_impossible h.length h8 k hk hl h2
    · have : START <+: h := by
        obtain ⟨x, hx⟩ := hpre
        refine ⟨(h.drop 8), ?_⟩
        have := congrArg (List.take 8) hx
        rw [List.take_append_of_le_length (by simp [START]), List.take_of_length_le (by simp [START]),
          List.take_append_of_le_length h8] at this
        rw [this, List.take_append_drop]
      exact this.trans (List.prefix_append _ _)
  · -- the occurrence begins inside the partial start sequence
    have e1 : (g ++ START.take k ++ START).drop j = (START.take k ++ START).drop (j - g.length) := by
      rw [List.append_assoc, List.drop_append]
      rw [List.drop_of_length_le hge, List.nil_append]
    rw [e1] at hpre
    exact partial_alone k hk (j - g.length) (by omega) hpre

/-- start-free noise `g`, then the first `k < 8` bytes of a frame: one `IoErr(Eof, |g| + k)`
(nothing if `g = []` and `k = 0`), as for any start-free tail -/
theorem reader_results_tail_partial_start (kind : SrcKind) (hk : kind = .mem ∨ kind = .io)
    (cap : Option Nat) (gs : List (List UInt8 × List UInt8))
    (hg : ∀ gp ∈ gs, StartFree gp.1 ∧ fitsCap cap gp.2.length)
    (g m1 : List UInt8) (k : Nat) (hgn : StartFree g) (h8 : k < 8) (n : Nat) :
    ((Rdr.new kind cap ((stream gs (g ++ (frame m1).take k)).map Ev.byte)).calls
        (List.replicate n .next)).2 =
      padTo RItem.none
        (delivered gs ++ (if g.length + k = 0 then [] else [RItem.ioErr .eof (g.length + k)])) n := by
  have hst : (frame m1).take k = START.take k := by
    rw [Dec.frame_eq_START_drop8, List.take_append_of_le_length (by simp [START]; omega)]
  have hPl : (START.take k).length = k := by simp [START]; omega
  rw [hst, reader_results kind hk cap gs _ hg (startFree_append_partial g hgn k h8)]
  unfold expected
  congr 2
  rw [List.length_append, hPl]
  by_cases h0 : g.length + k = 0
  · have hg0 : g = [] := List.length_eq_zero_iff.1 (by omega)
    have hk0 : k = 0 := by omega
    subst hg0 hk0
    rfl
  · rw [if_neg h0, if_neg]
    intro hc
    have := congrArg List.length hc
    rw [List.length_append, hPl] at this
    exact h0 this

/-! ### 3. the doubled start: a cut-off transmission, then an unfinished one -/

/-- start-free noise `g`, a transmission cut off in state `Normal` after `k1` bytes (`a1`; e.g. just
the start sequence), then the first `k2 ≥ 8` bytes of another frame (`a2`) -/
theorem tailRes_cut_cut (cap : Option Nat) (g m1 m2 : List UInt8) (k1 k2 : Nat) (hg : StartFree g)
    (hstate : (Dec.pushAll (Dec.fresh none) ((frame m1).take k1)).1.st = .normal)
    (hroom1 : NoOom cap ((frame m1).take k1))
    (h8 : 8 ≤ k2) (hk2 : k2 < (frame m2).length) (hroom2 : NoOom cap ((frame m2).take k2)) :
    TailRes cap (g ++ (frame m1).take k1 ++ (frame m2).take k2)
      (noiseItems g ++ [Item.err (.discarded ((frame m1).take k1).length)])
      ((frame m2).take k2).length := by
  obtain ⟨n1, n2, n3, n4⟩ := C08.noise_cut cap g m1 k1 hg hstate hroom1
  obtain ⟨t1, t2⟩ := cut_any_tail cap m2 k2 h8 hk2 hroom2
  have hrs := Resync.restart _ n2
  -- the state after the second start sequence is the post-START state of a new decoder
  have hgen : ∀ d : Dec, d.buf.cap = cap →
      ({ d with raw := 8, zc := 0, buf := d.buf.clear, crc := startCrc, st := .normal } : Dec) =
        afterStart (Dec.fresh cap) := by
    intro d hd
    obtain ⟨r, c, s, z, ⟨cp, rd⟩⟩ := d
    simp only at hd
    subst hd
    rfl
  have hstate2 := hgen _ n4
  rw [hstate2] at hrs
  have hsplit : g ++ (frame m1).take k1 ++ (frame m2).take k2 =
      (g ++ (frame m1).take k1) ++ (START ++ ((frame m2).drop 8).take (k2 - 8)) := by
    rw [C08.take_frame_split m2 k2 h8]
  unfold TailRes
  rw [hsplit, Dec.pushAll_append, Dec.pushAll_append, hrs]
  simp only
  refine ⟨?_, t2⟩
  rw [n1, n3, t1]
  have e1 := items_noise_start g (((frame m1).take k1).length - 8)
  have e2 := items_restart (.discarded ((frame m1).take k1).length) (((frame m2).take k2).length - 8)
  unfold C15.items at e1 e2 ⊢
  rw [List.filterMap_append, e1, e2]

/-- A stream that ends with a cut-off transmission followed by an unfinished one (for `k1 = 8` the
tail is `g ++ START ++ START ++ …`, the doubled start sequence): the files, `DiscardedBytes(|g|)` if
`g ≠ []`, `DiscardedBytes(|a1|)` for the cut-off transmission (reported when the second start
sequence is complete), `IoErr(Eof, k2)` for the unfinished one, then `None` forever. -/
theorem reader_results_tail_cut_cut (kind : SrcKind) (hk : kind = .mem ∨ kind = .io)
    (cap : Option Nat) (gs : List (List UInt8 × List UInt8))
    (hg : ∀ gp ∈ gs, StartFree gp.1 ∧ fitsCap cap gp.2.length)
    (g m1 m2 : List UInt8) (k1 k2 : Nat) (hgn : StartFree g)
    (hstate : (Dec.pushAll (Dec.fresh none) ((frame m1).take k1)).1.st = .normal)
    (hroom1 : NoOom cap ((frame m1).take k1))
    (h8 : 8 ≤ k2) (hk2 : k2 < (frame m2).length) (hroom2 : NoOom cap ((frame m2).take k2))
    (n : Nat) :
    ((Rdr.new kind cap ((stream gs (g ++ (frame m1).take k1 ++ (frame m2).take k2)).map
        Ev.byte)).calls (List.replicate n .next)).2 =
      padTo RItem.none
        (delivered gs ++ (if g = [] then [] else [RItem.decErr (.discarded g.length)]) ++
          [RItem.decErr (.discarded ((frame m1).take k1).length)] ++ [RItem.ioErr .eof k2]) n := by
  have hal : ((frame m2).take k2).length = k2 := by rw [List.length_take]; omega
  rw [reader_results_of_tail kind hk cap gs hg _ _ _
    (tailRes_cut_cut cap g m1 m2 k1 k2 hgn hstate hroom1 h8 hk2 hroom2), hal]
  congr 1
  unfold eofItems
  rw [if_neg (by omega), List.map_append]
  unfold noiseItems
  split <;> simp [Item.toR]

/-! ### 4. `tail = g ++ START ++ r` for arbitrary `r` -/

/-- Start-free noise, a start sequence, then ANY bytes `r`: the noise report, then the items the
decoder produces for `r` from its post-START state, then the leftover count of that run.  (The
cases above are instances; `r` may also contain complete frames, further start sequences, …) -/
theorem tailRes_start (cap : Option Nat) (g r : List UInt8) (hg : StartFree g) :
    TailRes cap (g ++ START ++ r)
      (noiseItems g ++ C15.items (Dec.pushAll (afterStart (Dec.fresh cap)) r).2)
      (Dec.pushAll (afterStart (Dec.fresh cap)) r).1.reset.2 := by
  have hns := Resync.noise_start (Dec.fresh cap) rfl g hg
  unfold TailRes
  rw [Dec.pushAll_append, hns]
  simp only
  refine ⟨?_, by first | rfl | trivial⟩
  have := items_noise_start g 0
  unfold C15.items at this ⊢
  rw [List.filterMap_append]
  simp only [List.replicate_zero, List.append_nil] at this
  rw [this]

theorem reader_results_tail_start (kind : SrcKind) (hk : kind = .mem ∨ kind = .io)
    (cap : Option Nat) (gs : List (List UInt8 × List UInt8))
    (hg : ∀ gp ∈ gs, StartFree gp.1 ∧ fitsCap cap gp.2.length)
    (g r : List UInt8) (hgn : StartFree g) (n : Nat) :
    ((Rdr.new kind cap ((stream gs (g ++ START ++ r)).map Ev.byte)).calls
        (List.replicate n .next)).2 =
      padTo RItem.none
        (delivered gs ++ (if g = [] then [] else [RItem.decErr (.discarded g.length)]) ++
          (C15.items (Dec.pushAll (afterStart (Dec.fresh cap)) r).2).map Item.toR ++
          eofItems (Dec.pushAll (afterStart (Dec.fresh cap)) r).1.reset.2) n := by
  rw [reader_results_of_tail kind hk cap gs hg _ _ _ (tailRes_start cap g r hgn), List.map_append]
  congr 2
  simp only [List.append_assoc]
  congr 2
  unfold noiseItems; split <;> rfl

/-! ### 5. non-vacuity (kernel evaluation) -/

/-- one file, noise `1b`, then a transmission cut in the middle of its escape sequence (13 bytes):
not a `Normal` cut point, still covered -/
example : ((Rdr.new .io (some 4) ((stream [([0x00], [1, 2, 3, 4])]
      ([0x1b] ++ (frame [5, 6, 7, 8]).take 13)).map Ev.byte)).calls (List.replicate 5 .next)).2 =
    [.decErr (.discarded 1), .ok [1, 2, 3, 4], .decErr (.discarded 1), .ioErr .eof 13, .none] := by
  decide +kernel

example : NoOom (some 4) ((frame [5, 6, 7, 8]).take 13) := by decide +kernel
example : (Dec.pushAll (Dec.fresh none) ((frame [5, 6, 7, 8]).take 13)).1.st = .escChars 1 := by
  decide +kernel

/-- the cut inside the start sequence -/
example : ((Rdr.new .mem none ((stream [([], [1, 2])]
      ([0x1b, 0x00] ++ (frame [5]).take 6)).map Ev.byte)).calls (List.replicate 3 .next)).2 =
    [.ok [1, 2], .ioErr .eof 8, .none] := by decide +kernel

/-- the doubled start: `START ++ START ++ 05` -/
example : ((Rdr.new .mem none ((stream [([], [1, 2])]
      ([0xaa] ++ (frame [9]).take 8 ++ (frame [5]).take 9)).map Ev.byte)).calls
        (List.replicate 5 .next)).2 =
    [.ok [1, 2], .decErr (.discarded 1), .decErr (.discarded 8), .ioErr .eof 9, .none] := by
  decide +kernel

example : (frame [9]).take 8 = START := by decide +kernel

end Sml.C10

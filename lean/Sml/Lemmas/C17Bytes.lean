import Sml.Props.C17
import Sml.Props.C08
/-
  Property C17, anchored to the BYTES (review item H2).

  The walker `Spec.tileFrom` / `Spec.tileStep` of C17 only looks at the answers and at positions.
  Here every tile is tied to the bytes it covers.  For `r := Dec.pushAll (Dec.fresh cap) s`, answer
  number `i`, and `b` the boundary the walker has reached before position `i`
  (`tileFrom 0 0 (r.2.take i) = some b`):

  * `Err(DiscardedBytes(n))` is answered exactly at the last byte of an occurrence of the start
    sequence (`discarded_at_start`); `n = i+1-8-b`; and the discarded tile `s[b .. b+n)` is
      - either NOISE in the sense of C08 (`StartFree`: in `tile ++ START` the start sequence occurs
        only at the very end - the matcher was looking and never completed before), or
      - begins with a start sequence (`START <+: tile`): a transmission that began at `b` and was
        aborted by the in-frame sequence `1b1b1b1b 01010101`
    (`tile_boundaries`; the two cases exclude each other);
  * `InvalidMessage` / `InvalidEsc` / `OutOfMemory`: the rejected tile `s[b .. i+1)` begins with a
    start sequence (`rejected_tile_is_frame_start`);
  * `Ok(Some(m))`: the tile is exactly `frame m` (`C17.frame_tile`, restated in `Rep`);
  * the bytes after the last boundary are start-free in the sense that no start sequence has been
    completed in them (decoder looking), or begin with a start sequence (decoder inside a
    transmission) (`leftover`);
  * `tiling_anchored`: all of this for the explicit list of tiles `tilesFrom`.

  Method: the invariant `BI c b d` ("`c` = bytes consumed, `b` = boundary"): while looking, the
  matcher state tracks the longest prefix of the start sequence that is a suffix of `c.drop b`
  (`Resync.Tracks`) and no prefix of `c.drop b` ends with the start sequence (`NoHit`); inside a
  transmission `c.drop b` begins with the start sequence.  It is carried along with the position
  invariant `TInv` (C17) and the soundness invariant `SInv` (C02).
-/
namespace Sml.C17

open Spec (frame tileStep tileFrom)
open C08 (StartFree)
open Dec (SInv TInv)

/-! ### 1. definitions -/

/-- the decoder is inside a transmission -/
def inFrame : DState → Prop
  | .normal => True
  | .escChars _ => True
  | .escPayload _ _ => True
  | _ => False

/-- no prefix of `t` ends with the start sequence (the start sequence does not occur in `t`) -/
def NoHit (t : List UInt8) : Prop := ∀ j, j ≤ t.length → ¬ (START <:+ t.take j)

/-- the byte-level invariant: `c` = all bytes consumed, `b` = the boundary -/
def BI (c : List UInt8) (b : Nat) (d : Dec) : Prop :=
  match d.st with
  | .look _ init => Resync.Tracks (c.drop b).reverse init ∧ NoHit (c.drop b)
  | .done => True
  | _ => START <+: c.drop b

theorem bi_of_inFrame {c : List UInt8} {b : Nat} {d : Dec} (h : inFrame d.st)
    (hs : START <+: c.drop b) : BI c b d := by
  unfold BI
  cases hst : d.st with
  | look disc init => rw [hst] at h; exact h.elim
  | done => rw [hst] at h; exact h.elim
  | normal => exact hs
  | escChars n => exact hs
  | escPayload step q => exact hs

theorem bi_inFrame {c : List UInt8} {b : Nat} {d : Dec} (h : inFrame d.st) (hb : BI c b d) :
    START <+: c.drop b := by
  unfold BI at hb
  cases hst : d.st with
  | look disc init => rw [hst] at h; exact h.elim
  | done => rw [hst] at h; exact h.elim
  | normal => rw [hst] at hb; exact hb
  | escChars n => rw [hst] at hb; exact hb
  | escPayload step q => rw [hst] at hb; exact hb

theorem noHit_nil : NoHit [] := by
  intro j _ h
  have := h.length_le
  simp [START] at this

theorem noHit_snoc {t : List UInt8} {x : UInt8} (h : NoHit t) (hx : ¬ START <:+ t ++ [x]) :
    NoHit (t ++ [x]) := by
  intro j hj
  rcases Nat.lt_or_ge t.length j with hlt | hge
  · have : j = (t ++ [x]).length := by simp at hj ⊢; omega
    rw [this, List.take_length]
    exact hx
  · rw [List.take_append_of_le_length hge]
    exact h j hge

theorem drop_snoc {c : List UInt8} {b : Nat} (hb : b ≤ c.length) (x : UInt8) :
    (c ++ [x]).drop b = c.drop b ++ [x] := List.drop_append_of_le_length hb

theorem prefix_drop_snoc {c : List UInt8} {b : Nat} (hb : b ≤ c.length) (x : UInt8)
    (h : START <+: c.drop b) : START <+: (c ++ [x]).drop b := by
  rw [drop_snoc hb]
  exact h.trans (List.prefix_append _ _)

/-- the matcher completes iff the bytes since the boundary now end with the start sequence -/
theorem hit_iff_suffix {t : List UInt8} {k : Nat} (h : Resync.Tracks t.reverse k) (x : UInt8) :
    Resync.delta k x = 8 ↔ START <:+ t ++ [x] := by
  rw [Resync.hit_iff h, Resync.pre8, ← List.reverse_prefix]
  simp

/-- in `tile ++ START`, if no proper prefix ends with the start sequence, `tile` is noise -/
theorem startFree_of_noHit {t : List UInt8} {x : UInt8} {n : Nat} (h : NoHit t)
    (hn : n + 8 = t.length + 1) (hs : START <:+ t ++ [x]) : StartFree (t.take n) := by
  obtain ⟨pre, hp⟩ := hs
  have hpl : pre.length = n := by
    have := congrArg List.length hp
    simp [START] at this
    omega
  have hpre : t.take n = pre := by
    have := congrArg (List.take n) hp
    rw [← hpl, List.take_left, hpl] at this
    rw [this, List.take_append_of_le_length (by omega)]
  intro k hk hc
  rw [hpre] at hk hc
  rw [hp] at hc
  -- an occurrence at offset `k < |pre|` ends at `k + 8 ≤ |t|`
  apply h (k + 8) (by omega)
  obtain ⟨y, hy⟩ := hc
  refine ⟨(t ++ [x]).take k, ?_⟩
  have h1 : (t ++ [x]).take (k + 8) = t.take (k + 8) :=
    List.take_append_of_le_length (by omega)
  rw [← h1, List.take_add]
  congr 1
  have := congrArg (List.take 8) hy
  rw [List.take_left' (by simp [START])] at this
  exact this

/-! ### 2. one byte while looking for the start sequence -/

/-- what a step from a looking state establishes -/
def LookPost (c : List UInt8) (b : Nat) (x : UInt8) (p : Dec × Res) : Prop :=
  match p.2 with
  | .more => BI (c ++ [x]) b p.1
  | .err (.discarded n) => START <:+ c ++ [x] ∧ p.1.st = .normal ∧ StartFree ((c.drop b).take n)
  | _ => False

theorem blook {c : List UInt8} {b : Nat} {d : Dec} {disc init : Nat} (hst : d.st = .look disc init)
    (hT : TInv b c.length d) (hB : BI c b d) (x : UInt8) : LookPost c b x (d.pushByte x) := by
  have hT' : b + d.raw = c.length ∧ d.raw = disc + init ∧ init ≤ 7 := by
    simpa [TInv, hst, Dec.TI] using hT
  obtain ⟨t1, t2, t3⟩ := hT'
  have hB' : Resync.Tracks (c.drop b).reverse init ∧ NoHit (c.drop b) := by
    simpa [BI, hst] using hB
  obtain ⟨htr, hno⟩ := hB'
  have hbl : b ≤ c.length := by omega
  have hlen : (c.drop b).length = disc + init := by rw [List.length_drop]; omega
  by_cases h8 : Resync.delta init x = 8
  · obtain ⟨h7, _⟩ := (Resync.delta_eq_8 t3).1 h8
    have hsuf := (hit_iff_suffix htr x).1 h8
    have hsufc : START <:+ c ++ [x] := by
      rw [← drop_snoc hbl] at hsuf
      exact hsuf.trans (List.drop_suffix _ _)
    rw [Resync.pushByte_look_hit hst t3 h8]
    by_cases hd : disc > 0
    · rw [if_pos hd]
      refine ⟨hsufc, rfl, ?_⟩
      exact startFree_of_noHit hno (by omega) hsuf
    · rw [if_neg hd]
      simp only [LookPost]
      apply bi_of_inFrame (by trivial)
      rw [drop_snoc hbl]
      have hl : (c.drop b ++ [x]).length = START.length := by
        rw [List.length_append, hlen]; simp [START]; omega
      rw [List.IsSuffix.eq_of_length hsuf hl.symm]
      exact List.prefix_refl _
  · rw [Resync.pushByte_look_more hst t3 h8]
    simp only [LookPost, BI]
    rw [drop_snoc hbl, List.reverse_append]
    refine ⟨Resync.tracks_step htr x h8, noHit_snoc hno ?_⟩
    intro hc
    exact h8 ((hit_iff_suffix htr x).2 hc)

/-! ### 3. one byte inside a transmission -/

/-- shape of a step from an in-frame state: `Ok(None)` stays inside the transmission;
`DiscardedBytes` only comes from the restart sequence (`P`) and leads to state `Normal` -/
def FPost (P : Prop) (p : Dec × Res) : Prop :=
  match p.2 with
  | .more => inFrame p.1.st
  | .err (.discarded _) => P ∧ p.1.st = .normal
  | _ => True

theorem fpost_afterPush {P : Prop} {d0 d : Dec} {r : Dec.PushRes} {l : List UInt8}
    {k : Dec → Dec × Res} (hr : PushOk r d l) (hk : ∀ d', Dec.Pushed d d' l → FPost P (k d')) :
    FPost P (Dec.afterPush d0 r k) :=
  Dec.afterPush_cases (P := FPost P) hr hk trivial

theorem fpost_normal {P : Prop} {d : Dec} (hst : d.st = .normal) (x : UInt8) :
    FPost P (d.pushByte x) := by
  rw [Dec.pushByte_normal hst]
  dsimp only
  split
  · trivial
  · apply fpost_afterPush (Dec.pushData_ok _ x)
    intro d' hp
    show inFrame d'.st
    rw [hp.2.2.1]
    show inFrame d.st
    rw [hst]; trivial

theorem fpost_escChars {P : Prop} {d : Dec} {n : Nat} (hst : d.st = .escChars n) (x : UInt8) :
    FPost P (d.pushByte x) := by
  rw [Dec.pushByte_escChars hst]
  dsimp only
  split
  · apply fpost_afterPush (Dec.pushRep_ok _ n _)
    intro d' _
    apply fpost_afterPush (Dec.pushData_ok _ x)
    intro d'' _
    trivial
  · split
    · trivial
    · split <;> trivial

theorem fpost_pushEnd {P : Prop} (d : Dec) (q : Quad) : FPost P (Dec.pushEnd d q) := by
  unfold Dec.pushEnd
  simp only
  repeat' split
  all_goals trivial

theorem fpost_escComplete {P : Prop} (d : Dec) (q : Quad) (hP : q = ⟨0x01, 0x01, 0x01, 0x01⟩ → P) :
    FPost P (Dec.pushEscComplete d q) := by
  unfold Dec.pushEscComplete
  dsimp only
  split
  · apply fpost_afterPush (Dec.pushList_ok _ _)
    intro d' _
    trivial
  · split
    · next hq =>
      split
      · trivial
      · exact ⟨hP hq, rfl⟩
    · split
      · exact fpost_pushEnd d q
      · split
        · apply fpost_afterPush (Dec.pushRep_ok _ _ _)
          intro d' _
          trivial
        · trivial

theorem fpost_escPayload {P : Prop} {d : Dec} {step : Nat} {q : Quad}
    (hst : d.st = .escPayload step q) (x : UInt8)
    (hP : ∀ q', q.set step x = some q' → step = 3 → q' = ⟨0x01, 0x01, 0x01, 0x01⟩ → P) :
    FPost P (d.pushByte x) := by
  rw [Dec.pushByte_escPayload hst]
  dsimp only
  cases hq : q.set step x with
  | none => trivial
  | some q' =>
    simp only
    split
    · trivial
    · next hlt =>
      by_cases h3 : step = 3
      · exact fpost_escComplete _ q' (hP q' hq h3)
      · -- `step > 3` cannot set a payload byte
        exfalso
        have : 4 ≤ step := by omega
        obtain ⟨s', rfl⟩ : ∃ s', step = s' + 4 := ⟨step - 4, by omega⟩
        simp [Quad.set] at hq

/-! ### 4. every byte: the step lemma -/

/-- what `_push_byte` establishes for the bytes -/
def BStep (c : List UInt8) (b : Nat) (x : UInt8) (p : Dec × Res) : Prop :=
  match p.2 with
  | .more => BI (c ++ [x]) b p.1
  | .err (.discarded n) => START <:+ c ++ [x] ∧ p.1.st = .normal ∧
      (StartFree ((c.drop b).take n) ∨ (START <+: c.drop b ∧ 16 ≤ c.length + 1 - b))
  | .err _ => START <+: c.drop b
  | _ => True

theorem bstep_of_look {c : List UInt8} {b : Nat} {x : UInt8} {p : Dec × Res}
    (h : LookPost c b x p) : BStep c b x p := by
  unfold LookPost at h
  unfold BStep
  obtain ⟨d', r⟩ := p
  cases r with
  | more => exact h
  | ready => trivial
  | panic s => trivial
  | err e =>
    cases e with
    | discarded n => exact ⟨h.1, h.2.1, Or.inl h.2.2⟩
    | invalidEsc a b c d => exact h.elim
    | oom => exact h.elim
    | invalidMsg a b c d e => exact h.elim

theorem bstep_of_fpost {P : Prop} {c : List UInt8} {b : Nat} {x : UInt8} {p : Dec × Res}
    (hb : b ≤ c.length) (hs : START <+: c.drop b) (h : FPost P p)
    (hP : P → START <:+ c ++ [x] ∧ 16 ≤ c.length + 1 - b) : BStep c b x p := by
  unfold FPost at h
  unfold BStep
  obtain ⟨d', r⟩ := p
  cases r with
  | more => exact bi_of_inFrame h (prefix_drop_snoc hb x hs)
  | ready => trivial
  | panic s => trivial
  | err e =>
    cases e with
    | discarded n => exact ⟨(hP h.1).1, h.2, Or.inr ⟨hs, (hP h.1).2⟩⟩
    | invalidEsc a b c d => exact hs
    | oom => exact hs
    | invalidMsg a b c d e => exact hs

theorem bstep {c : List UInt8} {b : Nat} {d : Dec} (hT : TInv b c.length d) (hS : SInv c d)
    (hB : BI c b d) (x : UInt8) : BStep c b x (d.pushByte x) := by
  cases hst : d.st with
  | look disc init => exact bstep_of_look (blook hst hT hB x)
  | done =>
    rw [Dec.pushByte_done hst]
    have hb : b = c.length := by simpa [TInv, hst, Dec.TI] using hT
    subst hb
    apply bstep_of_look
    apply blook (Dec.reset_st d) (Dec.tinv_reset _ d)
    unfold BI
    rw [Dec.reset_st]
    simp only [List.drop_length, List.reverse_nil]
    exact ⟨Resync.tracks_nil, noHit_nil⟩
  | normal =>
    have hT' : b + d.raw = c.length ∧ 8 ≤ d.raw := by simpa [TInv, hst, Dec.TI] using hT
    exact bstep_of_fpost (P := False) (by omega) (bi_inFrame (by rw [hst]; trivial) hB)
      (fpost_normal hst x) (fun h => h.elim)
  | escChars n =>
    have hT' : b + d.raw = c.length ∧ 8 + n ≤ d.raw ∧ 1 ≤ n ∧ n ≤ 3 := by
      simpa [TInv, hst, Dec.TI] using hT
    exact bstep_of_fpost (P := False) (by omega) (bi_inFrame (by rw [hst]; trivial) hB)
      (fpost_escChars hst x) (fun h => h.elim)
  | escPayload step q =>
    have hT' : b + d.raw = c.length ∧ 12 ≤ d.raw ∧ step ≤ 3 := by
      simpa [TInv, hst, Dec.TI] using hT
    have hS' := hS
    simp only [SInv, hst, Dec.SI] at hS'
    obtain ⟨_, ⟨pre, c1, c2, _⟩, _⟩ := hS'
    refine bstep_of_fpost (P := START <:+ c ++ [x] ∧ 16 ≤ c.length + 1 - b) (by omega)
      (bi_inFrame (by rw [hst]; trivial) hB) (fpost_escPayload hst x ?_) id
    intro q' hq' h3 hq1
    subst h3
    obtain ⟨q'', g1, g2, _⟩ := Dec.quad_set_take (Nat.le_refl 3) q x
    rw [hq'] at g1
    cases g1
    subst hq1
    constructor
    · refine ⟨pre ++ Spec.START ++ Spec.stuff d.ddS, ?_⟩
      rw [c1]
      have : q.toList.take 3 ++ [x] = [0x01, 0x01, 0x01, 0x01] := g2.symm
      simp only [List.append_assoc]
      congr 3
      show _ = List.replicate 4 0x1b ++ (q.toList.take 3 ++ [x])
      rw [this]
      rfl
    · simp only [List.length_append, List.length_replicate, List.length_take, Quad.toList,
        List.length_cons, List.length_nil] at c2
      omega

/-! ### 5. `Decoder::push_byte`: the report about the bytes -/

/-- what the answer `o` to the last byte of `w` says about the bytes, `b` = boundary before -/
def Rep (w : List UInt8) (b : Nat) : Out → Prop
  | .err (.discarded n) => START <:+ w ∧ 8 + b ≤ w.length ∧ n = w.length - 8 - b ∧ 0 < n ∧
      (StartFree ((w.drop b).take n) ∨ START <+: (w.drop b).take n)
  | .err _ => START <+: w.drop b
  | .msg m => w.drop b = frame m
  | _ => True

theorem prefix_take {l : List UInt8} {n : Nat} (h : START <+: l) (hn : 8 ≤ n) :
    START <+: l.take n := by
  obtain ⟨t, rfl⟩ := h
  rw [List.take_append, List.take_of_length_le (by simp [START]; omega)]
  exact List.prefix_append _ _

theorem drop_of_suffix {w : List UInt8} (h : START <:+ w) : w.drop (w.length - 8) = START := by
  have := List.suffix_iff_eq_drop.1 h
  rw [this]
  rfl

theorem bpush {c : List UInt8} {b : Nat} {d : Dec} (hT : TInv b c.length d) (hS : SInv c d)
    (hB : BI c b d) (x : UInt8) :
    ∃ b', tileStep b c.length (d.push x).2 = some b' ∧ TInv b' (c ++ [x]).length (d.push x).1 ∧
      SInv (c ++ [x]) (d.push x).1 ∧ BI (c ++ [x]) b' (d.push x).1 ∧
      Rep (c ++ [x]) b (d.push x).2 := by
  have h1 := Dec.tpost_pushByte hT x
  have h2 := Dec.sinv_pushByte hS x
  have h3 := bstep hT hS hB x
  have h4 := Dec.post_pushByte d x
  have hlen : (c ++ [x]).length = c.length + 1 := by simp
  rw [Dec.push_eq, hlen]
  generalize d.pushByte x = p at h1 h2 h3 h4
  obtain ⟨d', r⟩ := p
  cases r with
  | more =>
    exact ⟨b, rfl, h1, h2, h3, trivial⟩
  | ready =>
    obtain ⟨hd, hr⟩ := h1
    have hd : d'.st = .done := hd
    have hr : b + d'.raw = c.length + 1 := hr
    refine ⟨c.length + 1, rfl, by simp [TInv, hd, Dec.TI], h2, by simp [BI, hd], ?_⟩
    have h2' : ∃ pre, c ++ [x] = pre ++ frame d'.buf.data ∧ d'.raw = (frame d'.buf.data).length := by
      simpa [SInv, hd, Dec.SI] using h2
    obtain ⟨pre, e1, e2⟩ := h2'
    show (c ++ [x]).drop b = frame d'.buf.data
    have hpl : pre.length = b := by
      have := congrArg List.length e1
      rw [hlen, List.length_append] at this
      omega
    rw [e1, ← hpl, List.drop_left]
  | panic s => exact h1.elim
  | err e =>
    cases e with
    | discarded n =>
      obtain ⟨a1, a2, a3, a4⟩ := h1
      obtain ⟨s1, s2, s3⟩ := h3
      have s1' : START <:+ c ++ [x] := s1
      have s2' : d'.st = .normal := s2
      have hdrop := drop_of_suffix s1'
      rw [hlen] at hdrop
      refine ⟨c.length + 1 - 8, ?_, a4, h2, ?_, ?_⟩
      · simp only [tileStep]
        rw [if_pos ⟨a1, a2, a3⟩]
      · apply bi_of_inFrame (by rw [s2']; trivial)
        rw [hdrop]
        exact List.prefix_refl _
      · refine ⟨s1', by rw [hlen]; exact a1, by rw [hlen]; exact a2, a3, ?_⟩
        have hb : b ≤ c.length := by omega
        rw [drop_snoc hb]
        rcases s3 with s3 | ⟨s3, s4⟩
        · left
          rw [List.take_append_of_le_length (by rw [List.length_drop]; omega)]
          exact s3
        · right
          exact prefix_take (s3.trans (List.prefix_append _ _)) (by omega)
    | invalidEsc q1 q2 q3 q4 =>
      have hr := h4 (by intro n hc; cases hc)
      have hpre : START <+: c.drop b := h3
      have hb : b ≤ c.length := by
        have := hpre.length_le
        rw [List.length_drop] at this
        simp [START] at this
        omega
      refine ⟨c.length + 1, rfl, h1, h2, ?_, prefix_drop_snoc hb x hpre⟩
      unfold BI
      rw [hr.1, ← hlen, List.drop_length]
      exact ⟨Resync.tracks_nil, noHit_nil⟩
    | oom =>
      have hr := h4 (by intro n hc; cases hc)
      have hpre : START <+: c.drop b := h3
      have hb : b ≤ c.length := by
        have := hpre.length_le
        rw [List.length_drop] at this
        simp [START] at this
        omega
      refine ⟨c.length + 1, rfl, h1, h2, ?_, prefix_drop_snoc hb x hpre⟩
      unfold BI
      rw [hr.1, ← hlen, List.drop_length]
      exact ⟨Resync.tracks_nil, noHit_nil⟩
    | invalidMsg q1 q2 q3 q4 q5 =>
      have hr := h4 (by intro n hc; cases hc)
      have hpre : START <+: c.drop b := h3
      have hb : b ≤ c.length := by
        have := hpre.length_le
        rw [List.length_drop] at this
        simp [START] at this
        omega
      refine ⟨c.length + 1, rfl, h1, h2, ?_, prefix_drop_snoc hb x hpre⟩
      unfold BI
      rw [hr.1, ← hlen, List.drop_length]
      exact ⟨Resync.tracks_nil, noHit_nil⟩

/-! ### 6. streams -/

theorem anchored_aux (s : List UInt8) : ∀ {c : List UInt8} {b : Nat} {d : Dec},
    TInv b c.length d → SInv c d → BI c b d → ∀ (i : Nat) (o : Out),
    (d.pushAll s).2[i]? = some o →
    ∃ bi, tileFrom b c.length ((d.pushAll s).2.take i) = some bi ∧
      Rep (c ++ s.take (i + 1)) bi o := by
  induction s with
  | nil => intro c b d _ _ _ i o h; simp [Dec.pushAll_nil] at h
  | cons x xs ih =>
    intro c b d hT hS hB i o h
    obtain ⟨b', e1, hT', hS', hB', hR⟩ := bpush hT hS hB x
    rw [Dec.pushAll_cons] at h ⊢
    cases i with
    | zero =>
      simp only [List.getElem?_cons_zero, Option.some.injEq] at h
      subst h
      exact ⟨b, rfl, by simpa using hR⟩
    | succ i =>
      simp only [List.getElem?_cons_succ] at h
      obtain ⟨bi, e2, hR2⟩ := ih hT' hS' hB' i o h
      refine ⟨bi, ?_, ?_⟩
      · have hl : (c ++ [x]).length = c.length + 1 := by simp
        rw [hl] at e2
        simp only [List.take_succ_cons, tileFrom, e1, e2]
      · have : c ++ (x :: xs).take (i + 1 + 1) = (c ++ [x]) ++ xs.take (i + 1) := by simp
        rw [this]
        exact hR2

theorem anchored_final (s : List UInt8) : ∀ {c : List UInt8} {b : Nat} {d : Dec},
    TInv b c.length d → SInv c d → BI c b d →
    ∃ bf, tileFrom b c.length (d.pushAll s).2 = some bf ∧
      TInv bf (c ++ s).length (d.pushAll s).1 ∧ BI (c ++ s) bf (d.pushAll s).1 := by
  induction s with
  | nil =>
    intro c b d hT _ hB
    rw [Dec.pushAll_nil, List.append_nil]
    exact ⟨b, rfl, hT, hB⟩
  | cons x xs ih =>
    intro c b d hT hS hB
    obtain ⟨b', e1, hT', hS', hB', _⟩ := bpush hT hS hB x
    obtain ⟨bf, e2, hT2, hB2⟩ := ih hT' hS' hB'
    have hl : (c ++ [x]).length = c.length + 1 := by simp
    rw [hl] at e2
    have hc : c ++ [x] ++ xs = c ++ x :: xs := by simp
    rw [hc] at hT2 hB2
    rw [Dec.pushAll_cons]
    exact ⟨bf, by simp only [tileFrom, e1, e2], hT2, hB2⟩

theorem bi_fresh (cap : Option Nat) : BI [] 0 (Dec.fresh cap) := by
  unfold BI
  show Resync.Tracks (([] : List UInt8).drop 0).reverse 0 ∧ NoHit (([] : List UInt8).drop 0)
  exact ⟨Resync.tracks_nil, noHit_nil⟩

/-- The report about the bytes for answer number `i` of a stream, `b` = the boundary the walker
has reached before position `i`. -/
theorem report (cap : Option Nat) (s : List UInt8) (i : Nat) (o : Out) (b : Nat)
    (ho : (Dec.pushAll (Dec.fresh cap) s).2[i]? = some o)
    (hb : tileFrom 0 0 ((Dec.pushAll (Dec.fresh cap) s).2.take i) = some b) :
    Rep (s.take (i + 1)) b o := by
  obtain ⟨bi, e, hR⟩ := anchored_aux s (c := []) (Dec.tinv_fresh cap) (Dec.sinv_fresh cap)
    (bi_fresh cap) i o ho
  have : bi = b := Option.some.inj (e.symm.trans hb)
  subst this
  simpa using hR

theorem index_lt {cap : Option Nat} {s : List UInt8} {i : Nat} {o : Out}
    (ho : (Dec.pushAll (Dec.fresh cap) s).2[i]? = some o) : i < s.length := by
  have := (List.getElem?_eq_some_iff.1 ho).1
  rwa [Dec.pushAll_length] at this

/-- the walker has a boundary before every position (C17.tiling) -/
theorem boundary_exists (cap : Option Nat) (s : List UInt8) (i : Nat) :
    ∃ b, tileFrom 0 0 ((Dec.pushAll (Dec.fresh cap) s).2.take i) = some b := by
  obtain ⟨b, e, _⟩ := Dec.tinv_pushAll (s.take i) (Dec.tinv_fresh cap)
  rw [Dec.pushAll_take] at e
  exact ⟨b, e⟩

/-! ### 7. the theorems -/

/-- A discarded-bytes report is produced exactly at the last byte of an occurrence of the start
sequence: the eight bytes ending at position `i` are `1b1b1b1b 01010101`. -/
theorem discarded_at_start (cap : Option Nat) (s : List UInt8) (i n : Nat)
    (h : (Dec.pushAll (Dec.fresh cap) s).2[i]? = some (.err (.discarded n))) :
    (s.take (i + 1)).drop (i + 1 - 8) = START ∧ 8 ≤ i + 1 := by
  obtain ⟨b, hb⟩ := boundary_exists cap s i
  have hR := report cap s i _ b h hb
  obtain ⟨r1, r2, _⟩ := hR
  have hl : (s.take (i + 1)).length = i + 1 := by
    rw [List.length_take]; have := index_lt h; omega
  have := drop_of_suffix r1
  rw [hl] at this r2
  exact ⟨this, by omega⟩

theorem startFree_not_prefix {t : List UInt8} (h1 : StartFree t) (h2 : START <+: t) : False := by
  have hl := h2.length_le
  have : 0 < t.length := by simp [START] at hl; omega
  exact h1 0 this (by rw [List.drop_zero]; exact h2.trans (List.prefix_append _ _))

theorem take_drop_take (s : List UInt8) (i b n : Nat) (hn : n + b ≤ i) :
    ((s.take i).drop b).take n = (s.drop b).take n := by
  rw [List.drop_take, List.take_take]
  congr 1
  omega

/-- The tile of a discarded-bytes report.  With `b` the boundary before position `i`:
`n = i+1-8-b > 0`, the start sequence occupies the positions `i+1-8 .. i+1`, and the discarded tile
`s[b .. b+n)` is EITHER noise in the sense of C08 (`StartFree`: in `tile ++ START` the start sequence
occurs only at the very end, i.e. no start sequence ends inside `(b, i+1-8+7]`; the decoder was
looking for a start) OR it begins with a start sequence (a transmission that started at `b` and was
aborted by `1b1b1b1b 01010101`); never both. -/
theorem tile_boundaries (cap : Option Nat) (s : List UInt8) (i n b : Nat)
    (hb : tileFrom 0 0 ((Dec.pushAll (Dec.fresh cap) s).2.take i) = some b)
    (h : (Dec.pushAll (Dec.fresh cap) s).2[i]? = some (.err (.discarded n))) :
    8 + b ≤ i + 1 ∧ n = i + 1 - 8 - b ∧ 0 < n ∧ (s.drop (b + n)).take 8 = START ∧
      ((StartFree ((s.drop b).take n) ∧ ¬ START <+: (s.drop b).take n) ∨
        (START <+: (s.drop b).take n ∧ ¬ StartFree ((s.drop b).take n))) := by
  have hR := report cap s i _ b h hb
  obtain ⟨r1, r2, r3, r4, r5⟩ := hR
  have hil := index_lt h
  have hl : (s.take (i + 1)).length = i + 1 := by rw [List.length_take]; omega
  rw [hl] at r2 r3
  have hd := drop_of_suffix r1
  rw [hl, List.drop_take] at hd
  have e8 : i + 1 - (i + 1 - 8) = 8 := by omega
  have ebn : b + n = i + 1 - 8 := by omega
  rw [e8, ← ebn] at hd
  rw [take_drop_take s (i + 1) b n (by omega)] at r5
  refine ⟨r2, r3, r4, hd, ?_⟩
  rcases r5 with r5 | r5
  · exact Or.inl ⟨r5, fun h2 => startFree_not_prefix r5 h2⟩
  · exact Or.inr ⟨r5, fun h1 => startFree_not_prefix h1 r5⟩

/-- the noise case in positional form: no window of eight bytes inside `s[b .. i+1)` other than the
last one is the start sequence -/
theorem noise_tile_no_start {s : List UInt8} {b n : Nat} (hs : (s.drop (b + n)).take 8 = START)
    (hfree : StartFree ((s.drop b).take n)) (hn : b + n + 8 ≤ s.length) (k : Nat) (hk : k < n) :
    (s.drop (b + k)).take 8 ≠ START := by
  intro hc
  have hl : ((s.drop b).take n).length = n := by rw [List.length_take, List.length_drop]; omega
  apply hfree k (by rw [hl]; exact hk)
  -- `tile ++ START` is `s[b .. b+n+8)`
  have hts : (s.drop b).take n ++ START = (s.drop b).take (n + 8) := by
    rw [List.take_add, ← hs, List.drop_drop]
  rw [hts, List.drop_take]
  refine ⟨((s.drop b).drop k).take (n + 8 - k) |>.drop 8, ?_⟩
  have : (s.drop (b + k)).take 8 = (((s.drop b).drop k).take (n + 8 - k)).take 8 := by
    rw [List.drop_drop, List.take_take]
    congr 1
    omega
  rw [← hc, this, List.take_append_drop]

/-- The tile of a rejected transmission (`InvalidMessage`, `InvalidEsc`, `OutOfMemory`) begins with
a start sequence: the transmission that ends with the error began at the boundary `b`. -/
theorem rejected_tile_is_frame_start (cap : Option Nat) (s : List UInt8) (i b : Nat) (e : DecErr)
    (he : ∀ n, e ≠ .discarded n)
    (hb : tileFrom 0 0 ((Dec.pushAll (Dec.fresh cap) s).2.take i) = some b)
    (h : (Dec.pushAll (Dec.fresh cap) s).2[i]? = some (.err e)) :
    START <+: s.drop b ∧ START <+: (s.drop b).take (i + 1 - b) ∧ b + 8 ≤ i + 1 := by
  have hR := report cap s i _ b h hb
  have hpre : START <+: (s.take (i + 1)).drop b := by
    cases e with
    | discarded n => exact absurd rfl (he n)
    | invalidEsc a b c d => exact hR
    | oom => exact hR
    | invalidMsg a b c d e => exact hR
  have hil := index_lt h
  rw [List.drop_take] at hpre
  refine ⟨hpre.trans (List.take_prefix _ _), hpre, ?_⟩
  have := hpre.length_le
  rw [List.length_take] at this
  simp [START] at this
  omega

/-- The tile of a delivered payload is exactly its canonical frame (this is `C17.frame_tile`). -/
theorem delivered_tile (cap : Option Nat) (s : List UInt8) (i b : Nat) (m : List UInt8)
    (hb : tileFrom 0 0 ((Dec.pushAll (Dec.fresh cap) s).2.take i) = some b)
    (h : (Dec.pushAll (Dec.fresh cap) s).2[i]? = some (.msg m)) :
    (s.drop b).take (i + 1 - b) = frame m ∧ b + (frame m).length = i + 1 := by
  obtain ⟨b', e, hl, hs⟩ := frame_tile cap s i m h
  have : b' = b := Option.some.inj (e.symm.trans hb)
  subst this
  have hR : (s.take (i + 1)).drop b' = frame m := report cap s i _ b' h hb
  rw [List.drop_take] at hR
  exact ⟨hR, hl⟩

/-- The bytes after the last boundary `bf` (what `finalize` / `reset` / an I/O error will report):
while the decoder is looking for a start sequence none has been completed in them (`NoHit`);
inside a transmission they begin with a start sequence; after a delivered transmission there are
none. -/
theorem leftover (cap : Option Nat) (s : List UInt8) :
    ∃ bf, tileFrom 0 0 (Dec.pushAll (Dec.fresh cap) s).2 = some bf ∧ bf ≤ s.length ∧
      match (Dec.pushAll (Dec.fresh cap) s).1.st with
      | .look _ _ => NoHit (s.drop bf)
      | .done => bf = s.length
      | _ => START <+: s.drop bf := by
  obtain ⟨bf, e, hT, hB⟩ := anchored_final s (c := []) (Dec.tinv_fresh cap) (Dec.sinv_fresh cap)
    (bi_fresh cap)
  simp only [List.nil_append] at hT hB
  refine ⟨bf, e, ?_, ?_⟩
  · unfold Dec.TInv at hT
    cases hst : (Dec.pushAll (Dec.fresh cap) s).1.st <;> rw [hst] at hT <;>
      simp only [Dec.TI] at hT <;> omega
  · unfold BI at hB
    unfold Dec.TInv at hT
    cases hst : (Dec.pushAll (Dec.fresh cap) s).1.st with
    | look disc init => rw [hst] at hB; exact hB.2
    | done => rw [hst] at hT; simp only [Dec.TI] at hT; exact hT
    | normal => rw [hst] at hB; exact hB
    | escChars n => rw [hst] at hB; exact hB
    | escPayload step q => rw [hst] at hB; exact hB

/-! ### 8. the list of tiles -/

/-- where the tile reported by answer `o` to the byte at position `p - 1` ends: a discarded-bytes
report ends before the start sequence that triggered it -/
def tileEndOf (p : Nat) : Out → Nat
  | .err (.discarded _) => p - 8
  | _ => p

/-- the tiles `(start, end, report)` the answers cut the stream into; `b` = boundary, `i` =
position (as in `Spec.tileFrom`) -/
def tilesFrom (b i : Nat) : List Out → List (Nat × Nat × Out)
  | [] => []
  | .none :: os => tilesFrom b (i + 1) os
  | o :: os => (b, tileEndOf (i + 1) o, o) :: tilesFrom (tileEndOf (i + 1) o) (i + 1) os

/-- consecutive tiles: the first begins at `b`, each begins where its predecessor ends, the last
ends at `e` -/
def Contig (b e : Nat) : List (Nat × Nat × Out) → Prop
  | [] => b = e
  | (lo, hi, _) :: ts => lo = b ∧ Contig hi e ts

theorem tileStep_eq {b i : Nat} {o : Out} {b' : Nat} (h : tileStep b i o = some b')
    (ho : o ≠ .none) : b' = tileEndOf (i + 1) o := by
  cases o with
  | none => exact absurd rfl ho
  | msg m => simp only [tileStep, Option.some.injEq] at h; exact h.symm
  | panic s => simp [tileStep] at h
  | err e =>
    cases e with
    | discarded n =>
      simp only [tileStep] at h
      split at h
      · simp only [Option.some.injEq] at h; exact h.symm
      · cases h
    | invalidEsc a b c d => simp only [tileStep, Option.some.injEq] at h; exact h.symm
    | oom => simp only [tileStep, Option.some.injEq] at h; exact h.symm
    | invalidMsg a b c d e => simp only [tileStep, Option.some.injEq] at h; exact h.symm

theorem tilesFrom_cons_of_ne (b i : Nat) (o : Out) (os : List Out) (ho : o ≠ .none) :
    tilesFrom b i (o :: os) =
      (b, tileEndOf (i + 1) o, o) :: tilesFrom (tileEndOf (i + 1) o) (i + 1) os := by
  cases o with
  | none => exact absurd rfl ho
  | msg m => rfl
  | err e => rfl
  | panic s => rfl

/-- the tiles are contiguous and end at the boundary the walker ends with -/
theorem tiles_contig (outs : List Out) : ∀ (b i bf : Nat), tileFrom b i outs = some bf →
    Contig b bf (tilesFrom b i outs) := by
  induction outs with
  | nil => intro b i bf h; simp only [tileFrom, Option.some.injEq] at h; exact h
  | cons o os ih =>
    intro b i bf h
    simp only [tileFrom] at h
    cases hs : tileStep b i o with
    | none => rw [hs] at h; cases h
    | some b' =>
      rw [hs] at h
      simp only at h
      by_cases ho : o = .none
      · subst ho
        simp only [tileStep, Option.some.injEq] at hs
        subst hs
        exact ih _ _ _ h
      · rw [tilesFrom_cons_of_ne b i o os ho]
        have := tileStep_eq hs ho
        subst this
        exact ⟨rfl, ih _ _ _ h⟩

/-- every tile belongs to an answer: its start is the boundary before that answer -/
theorem mem_tilesFrom (outs : List Out) : ∀ (b i lo hi : Nat) (o : Out),
    (lo, hi, o) ∈ tilesFrom b i outs → (tileFrom b i outs).isSome →
    ∃ j, outs[j]? = some o ∧ tileFrom b i (outs.take j) = some lo ∧
      hi = tileEndOf (i + j + 1) o ∧ o ≠ .none := by
  induction outs with
  | nil => intro b i lo hi o h _; simp [tilesFrom] at h
  | cons o0 os ih =>
    intro b i lo hi o h hsome
    simp only [tileFrom] at hsome
    cases hs : tileStep b i o0 with
    | none => rw [hs] at hsome; cases hsome
    | some b' =>
      rw [hs] at hsome
      simp only at hsome
      by_cases ho : o0 = .none
      · subst ho
        simp only [tileStep, Option.some.injEq] at hs
        subst hs
        have h' : (lo, hi, o) ∈ tilesFrom b (i + 1) os := h
        obtain ⟨j, g1, g2, g3, g4⟩ := ih _ _ _ _ _ h' hsome
        refine ⟨j + 1, by simpa using g1, ?_, by rw [g3]; congr 1; omega, g4⟩
        simp only [List.take_succ_cons, tileFrom, tileStep]
        exact g2
      · rw [tilesFrom_cons_of_ne b i o0 os ho] at h
        have hb' := tileStep_eq hs ho
        subst hb'
        rcases List.mem_cons.1 h with h | h
        · simp only [Prod.mk.injEq] at h
          obtain ⟨rfl, rfl, rfl⟩ := h
          exact ⟨0, rfl, rfl, rfl, ho⟩
        · obtain ⟨j, g1, g2, g3, g4⟩ := ih _ _ _ _ _ h hsome
          refine ⟨j + 1, by simpa using g1, ?_, by rw [g3]; congr 1; omega, g4⟩
          simp only [List.take_succ_cons, tileFrom, hs]
          exact g2

/-- what a tile `s[lo .. hi)` with report `o` looks like -/
def TileOk (s : List UInt8) : Nat × Nat × Out → Prop
  | (lo, hi, o) =>
    lo ≤ hi ∧ hi ≤ s.length ∧
      match o with
      | .msg m => (s.drop lo).take (hi - lo) = frame m
      | .err (.discarded n) =>
        n = hi - lo ∧ 0 < n ∧ (s.drop hi).take 8 = START ∧
          ((StartFree ((s.drop lo).take (hi - lo)) ∧ ¬ START <+: (s.drop lo).take (hi - lo)) ∨
            (START <+: (s.drop lo).take (hi - lo) ∧ ¬ StartFree ((s.drop lo).take (hi - lo))))
      | .err _ => START <+: (s.drop lo).take (hi - lo)
      | _ => False

/-- The tiling statement anchored to the bytes.  The answers cut the consumed part of the stream
into the consecutive tiles `tilesFrom 0 0 answers` (`tiles_contig`: they begin at 0, each begins
where its predecessor ends, the last ends at the walker's final boundary).  Every tile is
  * exactly `frame m` for a delivered payload `m`, or
  * a rejected transmission (`InvalidMessage` / `InvalidEsc` / `OutOfMemory`): it begins with a
    start sequence, or
  * discarded bytes, directly followed by a start sequence: either noise in which no start sequence
    was completed (`StartFree`), or an aborted transmission (it begins with a start sequence). -/
theorem tiling_anchored (cap : Option Nat) (s : List UInt8) :
    (∃ bf, tileFrom 0 0 (Dec.pushAll (Dec.fresh cap) s).2 = some bf ∧
      Contig 0 bf (tilesFrom 0 0 (Dec.pushAll (Dec.fresh cap) s).2)) ∧
    ∀ tile ∈ tilesFrom 0 0 (Dec.pushAll (Dec.fresh cap) s).2, TileOk s tile := by
  obtain ⟨bf, hbf, _⟩ := tiling cap s
  refine ⟨⟨bf, hbf, tiles_contig _ 0 0 bf hbf⟩, ?_⟩
  rintro ⟨lo, hi, o⟩ hmem
  obtain ⟨j, g1, g2, g3, g4⟩ := mem_tilesFrom _ 0 0 lo hi o hmem (by rw [hbf]; rfl)
  rw [Nat.zero_add] at g3
  have hjl := index_lt g1
  cases o with
  | none => exact absurd rfl g4
  | panic t =>
    exact absurd g1 (by
      intro hc
      exact Dec.pushAll_no_panic s (Dec.inv_fresh cap) _ (List.mem_of_getElem? hc) t rfl)
  | msg m =>
    obtain ⟨d1, d2⟩ := delivered_tile cap s j lo m g2 g1
    have hhi : hi = j + 1 := g3
    subst hhi
    exact ⟨by omega, by omega, d1⟩
  | err e =>
    cases e with
    | discarded n =>
      obtain ⟨t1, t2, t3, t4, t5⟩ := tile_boundaries cap s j n lo g2 g1
      have hhi : hi = j + 1 - 8 := g3
      have hn : hi - lo = n := by omega
      have hlo : lo + n = hi := by omega
      refine ⟨by omega, by omega, ?_⟩
      show n = hi - lo ∧ 0 < n ∧ (s.drop hi).take 8 = START ∧ _
      rw [hn, ← hlo]
      exact ⟨rfl, t3, t4, t5⟩
    | invalidEsc a b c d =>
      obtain ⟨_, r2, r3⟩ := rejected_tile_is_frame_start cap s j lo _
        (by intro n hc; cases hc) g2 g1
      have hhi : hi = j + 1 := g3
      subst hhi
      exact ⟨by omega, by omega, r2⟩
    | oom =>
      obtain ⟨_, r2, r3⟩ := rejected_tile_is_frame_start cap s j lo _
        (by intro n hc; cases hc) g2 g1
      have hhi : hi = j + 1 := g3
      subst hhi
      exact ⟨by omega, by omega, r2⟩
    | invalidMsg a b c d e =>
      obtain ⟨_, r2, r3⟩ := rejected_tile_is_frame_start cap s j lo _
        (by intro n hc; cases hc) g2 g1
      have hhi : hi = j + 1 := g3
      subst hhi
      exact ⟨by omega, by omega, r2⟩

/-! ### 9. non-vacuity (kernel evaluation, on the sample stream of C17) -/

/-- the tiles of the sample: noise, a delivered frame, noise, a frame rejected for its checksum -/
example : tilesFrom 0 0 (Dec.pushAll (Dec.fresh none) sample).2 =
    [(0, 2, .err (.discarded 2)), (2, 22, .msg [0x12, 0x34, 0x56, 0x78]),
     (22, 25, .err (.discarded 3)), (25, 45, .err (.invalidMsg 0 30735 false 0 false))] := by
  decide +kernel

/-- a transmission aborted by the in-frame restart sequence: the discarded tile (positions 1..13)
begins with a start sequence -/
example : tilesFrom 0 0 (Dec.pushAll (Dec.fresh none)
      ([0xaa] ++ START ++ [1, 2, 3, 4] ++ START ++ [5])).2 =
    [(0, 1, .err (.discarded 1)), (1, 13, .err (.discarded 12))] := by decide +kernel

example : START <+: (([0xaa] ++ START ++ [1, 2, 3, 4] ++ START ++ [5]).drop 1).take 12 := by decide
example : StartFree ((([0xaa] ++ START ++ [1, 2, 3, 4] ++ START ++ [5]).drop 0).take 1) := by decide

end Sml.C17

import Sml.Lemmas.Grammar4
import Sml.Props.C06
/-
  Introduction rules of the grammar relations (pure unfoldings of the definitions in
  Sml/Spec/Grammar.lean; no parser involved).  Used to exhibit concrete encodings.
-/
namespace Sml.Gram
open Sml Sml.Spec

theorem mk_octet (tl v : Bytes) (ht : EncTlf ⟨.octetString, v.length⟩ tl) :
    EncOctet v (tl ++ v) := ⟨tl, rfl, ht⟩

theorem mk_unsigned (size : Nat) (v : Int) (tl data : Bytes)
    (ht : EncTlf ⟨.unsigned, data.length⟩ tl)
    (h1 : 1 ≤ data.length) (h2 : data.length ≤ size) (hv : v = (beNat data : Int)) :
    EncUnsigned size v (tl ++ data) := ⟨tl, data, rfl, ht, h1, h2, hv⟩

theorem mk_signed (size : Nat) (v : Int) (tl data : Bytes)
    (ht : EncTlf ⟨.integer, data.length⟩ tl)
    (h1 : 1 ≤ data.length) (h2 : data.length ≤ size) (hv : v = twos data) :
    EncSigned size v (tl ++ data) := ⟨tl, data, rfl, ht, h1, h2, hv⟩

theorem mk_bool (tl : Bytes) (x : UInt8) (ht : EncTlf ⟨.boolean, 1⟩ tl) :
    EncBool (decide (x ≠ 0)) (tl ++ [x]) := ⟨tl, x, rfl, ht, rfl⟩

theorem mk_none {α : Type} (E : α → Bytes → Prop) : EncOpt E Option.none [0x01] := rfl

theorem mk_some {α : Type} {E : α → Bytes → Prop} {v : α} {bs : Bytes} (h : E v bs)
    (hh : bs.head? ≠ some 0x01) : EncOpt E (some v) bs := ⟨h, hh⟩

theorem mk_time_list (tl tag val : Bytes) (v : Int) (ht : EncTlf ⟨.listOf, 2⟩ tl)
    (h1 : EncUnsigned 1 1 tag) (h2 : EncUnsigned 4 v val) :
    EncTime (.secIndex v) (tl ++ tag ++ val) := Or.inl ⟨tl, tag, val, rfl, ht, h1, h2⟩

theorem mk_time_workaround (v : Int) (tl data : Bytes) (ht : EncTlf ⟨.unsigned, 4⟩ tl)
    (hl : data.length = 4) (hv : v = (beNat data : Int)) : EncTime (.secIndex v) (tl ++ data) :=
  Or.inr ⟨tl, data, rfl, ht, hl, hv⟩

theorem mk_listType (tag body : Bytes) (t : Time) (h1 : EncUnsigned 1 1 tag)
    (h2 : EncTime t body) : EncListType (.time t) (tag ++ body) := ⟨tag, body, rfl, h1, h2⟩

theorem widthClass_narrow (w : Nat) (hw : w ≤ 8) : WidthClass w (C12.narrow w) :=
  (widthClass_iff w _ hw).2 rfl

theorem mk_value_int (size : Nat) (v : Int) (tl data : Bytes)
    (ht : EncTlf ⟨.integer, data.length⟩ tl)
    (h1 : 1 ≤ data.length) (h2 : data.length ≤ 8) (hw : WidthClass data.length size)
    (hv : v = twos data) :
    EncValue (.int size v) (tl ++ data) := ⟨tl, data, rfl, ht, h1, h2, hw, hv⟩

theorem mk_value_uns (size : Nat) (v : Int) (tl data : Bytes)
    (ht : EncTlf ⟨.unsigned, data.length⟩ tl)
    (h1 : 1 ≤ data.length) (h2 : data.length ≤ 8) (hw : WidthClass data.length size)
    (hv : v = (beNat data : Int)) :
    EncValue (.uns size v) (tl ++ data) := ⟨tl, data, rfl, ht, h1, h2, hw, hv⟩

theorem mk_value_list (tl body : Bytes) (l : ListType) (ht : EncTlf ⟨.listOf, 2⟩ tl)
    (h : EncListType l body) : EncValue (.list l) (tl ++ body) := ⟨tl, body, rfl, ht, h⟩

theorem mk_value_bool {b : Bool} {bs : Bytes} (h : EncBool b bs) : EncValue (.bool b) bs := h

theorem mk_value_bytes {v bs : Bytes} (h : EncOctet v bs) : EncValue (.bytes v) bs := h

theorem mk_status (size : Nat) (v : Int) (tl data : Bytes)
    (ht : EncTlf ⟨.unsigned, data.length⟩ tl)
    (h1 : 1 ≤ data.length) (h2 : data.length ≤ 8) (hw : WidthClass data.length size)
    (hv : v = (beNat data : Int)) :
    EncStatus (.status size v) (tl ++ data) :=
  ⟨tl, data, rfl, ht, h1, h2, hw, hv⟩

theorem mk_listEntry {x : ListEntry} {tl b1 b2 b3 b4 b5 b6 b7 : Bytes}
    (ht : EncTlf ⟨.listOf, 7⟩ tl) (h1 : EncOctet x.objName b1)
    (h2 : EncOpt EncStatus x.status b2) (h3 : EncOpt EncTime x.valTime b3)
    (h4 : EncOpt (EncUnsigned 1) x.unit b4) (h5 : EncOpt (EncSigned 1) x.scaler b5)
    (h6 : EncValue x.value b6) (h7 : EncOpt EncOctet x.valueSignature b7) :
    EncListEntry x (tl ++ b1 ++ b2 ++ b3 ++ b4 ++ b5 ++ b6 ++ b7) :=
  ⟨tl, b1, b2, b3, b4, b5, b6, b7, rfl, ht, h1, h2, h3, h4, h5, h6, h7⟩

theorem mk_openResponse {x : OpenResponse} {tl b1 b2 b3 b4 b5 b6 : Bytes}
    (ht : EncTlf ⟨.listOf, 6⟩ tl) (h1 : EncOpt EncOctet x.codepage b1)
    (h2 : EncOpt EncOctet x.clientId b2) (h3 : EncOctet x.reqFileId b3)
    (h4 : EncOctet x.serverId b4) (h5 : EncOpt EncTime x.refTime b5)
    (h6 : EncOpt (EncUnsigned 1) x.smlVersion b6) :
    EncOpenResponse x (tl ++ b1 ++ b2 ++ b3 ++ b4 ++ b5 ++ b6) :=
  ⟨tl, b1, b2, b3, b4, b5, b6, rfl, ht, h1, h2, h3, h4, h5, h6⟩

theorem mk_closeResponse {x : CloseResponse} {tl b1 : Bytes}
    (ht : EncTlf ⟨.listOf, 1⟩ tl) (h1 : EncOpt EncOctet x.globalSignature b1) :
    EncCloseResponse x (tl ++ b1) := ⟨tl, b1, rfl, ht, h1⟩

theorem mk_valList {xs : List ListEntry} {tl body : Bytes}
    (ht : EncTlf ⟨.listOf, xs.length⟩ tl) (h : EncSeq EncListEntry xs body) :
    EncValList xs (tl ++ body) := ⟨tl, body, rfl, ht, h⟩

theorem mk_getListResponse {x : GetListResponse} {tl b1 b2 b3 b4 b5 b6 b7 : Bytes}
    (ht : EncTlf ⟨.listOf, 7⟩ tl) (h1 : EncOpt EncOctet x.clientId b1)
    (h2 : EncOctet x.serverId b2) (h3 : EncOpt EncOctet x.listName b3)
    (h4 : EncOpt EncTime x.actSensorTime b4) (h5 : EncValList x.valList b5)
    (h6 : EncOpt EncOctet x.listSignature b6) (h7 : EncOpt EncTime x.actGatewayTime b7) :
    EncGetListResponse x (tl ++ b1 ++ b2 ++ b3 ++ b4 ++ b5 ++ b6 ++ b7) :=
  ⟨tl, b1, b2, b3, b4, b5, b6, b7, rfl, ht, h1, h2, h3, h4, h5, h6, h7⟩

theorem mk_body_open {x : OpenResponse} {tl tag body : Bytes} (ht : EncTlf ⟨.listOf, 2⟩ tl)
    (h1 : EncUnsigned 4 0x0101 tag) (h2 : EncOpenResponse x body) :
    EncMessageBody (.openResponse x) (tl ++ tag ++ body) := ⟨tl, tag, body, rfl, ht, h1, h2⟩

theorem mk_body_close {x : CloseResponse} {tl tag body : Bytes} (ht : EncTlf ⟨.listOf, 2⟩ tl)
    (h1 : EncUnsigned 4 0x0201 tag) (h2 : EncCloseResponse x body) :
    EncMessageBody (.closeResponse x) (tl ++ tag ++ body) := ⟨tl, tag, body, rfl, ht, h1, h2⟩

theorem mk_body_getList {x : GetListResponse} {tl tag body : Bytes} (ht : EncTlf ⟨.listOf, 2⟩ tl)
    (h1 : EncUnsigned 4 0x0701 tag) (h2 : EncGetListResponse x body) :
    EncMessageBody (.getListResponse x) (tl ++ tag ++ body) := ⟨tl, tag, body, rfl, ht, h1, h2⟩

theorem mk_messageHead {m : Message} {tl b1 b2 b3 b4 : Bytes}
    (ht : EncTlf ⟨.listOf, 6⟩ tl) (h1 : EncOctet m.transactionId b1)
    (h2 : EncUnsigned 1 m.groupNo b2) (h3 : EncUnsigned 1 m.abortOnError b3)
    (h4 : EncMessageBody m.messageBody b4) :
    EncMessageHead m (tl ++ b1 ++ b2 ++ b3 ++ b4) := ⟨tl, b1, b2, b3, b4, rfl, ht, h1, h2, h3, h4⟩

theorem mk_message {m : Message} {head crcField : Bytes} (hh : EncMessageHead m head)
    (hc : EncUnsigned 2 ((swap16 (crc16 head)).toNat : Int) crcField) :
    EncMessage m (head ++ crcField ++ [0x00]) := ⟨head, crcField, rfl, hh, hc⟩

/-- the checksum field sent as a full 2-byte Unsigned16 (TLF 0x63) -/
theorem mk_crc (head : Bytes) (hi lo : UInt8)
    (h : (swap16 (crc16 head)).toNat = hi.toNat * 256 + lo.toNat) :
    EncUnsigned 2 ((swap16 (crc16 head)).toNat : Int) [0x63, hi, lo] := by
  refine ⟨[0x63], [hi, lo], rfl, rfl, by simp, by simp, ?_⟩
  rw [h]
  simp [beNat]

/-- from the error projection used in closed examples back to the result -/
theorem errOf_eq {α : Type} {r : Except PErr α} {e : PErr} (h : C06.errOf r = some e) :
    r = .error e := by
  cases r with
  | ok v => cases h
  | error e' =>
    simp only [C06.errOf, Option.some.injEq] at h
    rw [h]

theorem mk_file {F : File} {bs : Bytes} (h : EncSeq EncMessage F.messages bs) : EncFile F bs := h

end Sml.Gram

import Sml.Props.C02
import Sml.Props.C05
import Sml.Props.C08
import Sml.Props.C12
import Sml.Props.C15
import Sml.Props.C17
import Sml.Lemmas.DecResync
import Sml.Lemmas.DecRoundCap
/-
  Review round 2a: theorems that close gaps between the English properties and the theorem set.

  (1) `Sml.C05.counters_le_stream`, `counters_le_stream_pushAll`, `reported_counts_le_stream`,
      `reported_counts_le_stream_pushAll`:
      the `usize` counters of the decoder (`raw_msg_len`, `num_discarded_bytes`) and every count the
      decoder reports are bounded by the number of bytes pushed since the latest boundary
      (`finalize` / `reset` / `new` / `from_buf`).  So the modelling assumption "a 64-bit `usize`
      cannot overflow" is exactly "fewer than 2^64 bytes are pushed between two boundaries";
      `num_init_seq_bytes` (u8) is at most 7.
  (2) `Sml.C12.tlf_consumes_prefix`: the number of bytes of a type-length field (`tlf_len`, a
      `usize`, src/parser/tlf.rs:69) is between 1 and the input length; the rest is a suffix.
  (3) `Sml.C08.startFree_iff`: `StartFree g` is "the start sequence does not occur in `g`".
  (4) `Sml.C15.buffer_independent_noOom`, `first_difference_is_oom`, `differ_iff_oom`:
      an `ArrayBuf<N>` gives the results of a `Vec<u8>` as long as it never reports `OutOfMemory`,
      whatever the relation between `N` and the stream length.
-/
namespace Sml

/-! ## (1) C05: counters are bounded by the stream -/

namespace C05

open Spec (pushCount tileStep tileOpStep tileEnd tileReset)

/-- one operation: `raw` grows by at most one on a push and is 0 after every other operation -/
theorem step_raw_le {d : Dec} (h : Inv d) (op : Op) (acc : List UInt8) (hr : d.raw ≤ acc.length) :
    (d.step op).1.raw ≤ (Dec.consStep acc op).length := by
  cases op with
  | push b =>
    have := Dec.pushByte_raw_le h b
    rw [← Dec.push_fst] at this
    simp only [Dec.consStep, List.length_append, List.length_cons, List.length_nil]
    exact Nat.le_trans this (by omega)
  | fin => exact Nat.zero_le _
  | reset => exact Nat.zero_le _
  | new => exact Nat.zero_le _
  | fromBuf stale => exact Nat.zero_le _

/-- a history: `raw` is bounded by the number of bytes pushed since the latest boundary -/
theorem run_raw_le (ops : List Op) : ∀ {d : Dec} (acc : List UInt8), Inv d → d.raw ≤ acc.length →
    (Dec.run d ops).1.raw ≤ (ops.foldl Dec.consStep acc).length := by
  induction ops with
  | nil => intro d acc _ hr; exact hr
  | cons op ops ih =>
    intro d acc h hr
    rw [Dec.run_cons, List.foldl_cons]
    exact ih _ (Dec.step_inv h op) (step_raw_le h op acc hr)

/-- the bytes pushed since the latest boundary are among the bytes pushed -/
theorem consumed_length_le (ops : List Op) : (C02.consumed ops).length ≤ pushCount ops := by
  rw [C02.consumed_eq]
  suffices h : ∀ acc : List UInt8,
      (ops.foldl Dec.consStep acc).length ≤ acc.length + pushCount ops by simpa using h []
  induction ops with
  | nil => intro acc; simp [pushCount]
  | cons op ops ih =>
    intro acc
    rw [List.foldl_cons]
    have := ih (Dec.consStep acc op)
    cases op <;> simp [Dec.consStep, pushCount] at this ⊢ <;> omega

/-- `Spec.pushCount` is the number of `push_byte` operations -/
theorem pushCount_eq_count (ops : List Op) :
    pushCount ops = (ops.filter (fun op => match op with | .push _ => true | _ => false)).length := by
  induction ops with
  | nil => rfl
  | cons op ops ih => cases op <;> simp [pushCount, ih]

/-- After every history of `push_byte` / `finalize` / `reset` / `new` / `from_buf` calls, for every
buffer capacity: `raw_msg_len` is at most the number of bytes pushed since the latest
`finalize` / `reset` / `new` / `from_buf` (`C02.consumed ops`; that is at most the number
`Spec.pushCount ops` of all bytes pushed), and in state `LookingForMessageStart`
`num_discarded_bytes ≤` that number and `num_init_seq_bytes ≤ 7` (their sum is `raw_msg_len`).
So a `usize` counter can only overflow if at least `usize::MAX` bytes are pushed between two
boundaries. -/
theorem counters_le_stream (cap : Option Nat) (ops : List Op) :
    let d := (Dec.run (Dec.fresh cap) ops).1
    d.raw ≤ (C02.consumed ops).length ∧ (C02.consumed ops).length ≤ pushCount ops ∧
      ∀ disc init, d.st = .look disc init →
        disc ≤ (C02.consumed ops).length ∧ init ≤ 7 ∧ disc + init = d.raw := by
  intro d
  have hraw : d.raw ≤ (C02.consumed ops).length := by
    rw [C02.consumed_eq]
    exact run_raw_le ops [] (Dec.inv_fresh cap) (Nat.zero_le _)
  refine ⟨hraw, consumed_length_le ops, ?_⟩
  intro disc init hst
  obtain ⟨h7, _, _, hsum⟩ := (inv_bounds (inv_reachable cap ops)).2.2.2.2.1 disc init hst
  have hsum : d.raw = disc + init := hsum
  exact ⟨by omega, by omega, hsum.symm⟩

/-- the same for a plain stream fed to a new decoder -/
theorem counters_le_stream_pushAll (cap : Option Nat) (s : List UInt8) :
    let d := (Dec.pushAll (Dec.fresh cap) s).1
    d.raw ≤ s.length ∧
      ∀ disc init, d.st = .look disc init → disc ≤ s.length ∧ init ≤ 7 ∧ disc + init = d.raw := by
  intro d
  have hraw : d.raw ≤ s.length := by
    have h1 : d.raw ≤ (Dec.fresh cap).raw + s.length := Resync.pushAll_raw_le s (Dec.inv_fresh cap)
    have h0 : (Dec.fresh cap).raw = 0 := rfl
    omega
  refine ⟨hraw, ?_⟩
  intro disc init hst
  obtain ⟨h7, _, _, hsum⟩ :=
    (inv_bounds (Dec.pushAll_inv s (Dec.inv_fresh cap))).2.2.2.2.1 disc init hst
  have hsum : d.raw = disc + init := hsum
  exact ⟨by omega, by omega, hsum.symm⟩


/-! ### every reported count is bounded by the bytes consumed so far -/

/-- the operation result `o` reports the byte count `n` -/
def Reports (o : OpOut) (n : Nat) : Prop :=
  o = .out (.err (.discarded n)) ∨ o = .fin (some (.discarded n)) ∨ o = .reset n

theorem pushCount_map_push (s : List UInt8) : pushCount (s.map Op.push) = s.length := by
  induction s with
  | nil => rfl
  | cons b bs ih => simp [pushCount, ih]

/-- under the tiling invariant `raw` is the distance to the boundary, except in state `Done` where
the boundary is the current position -/
theorem tinv_raw {b i : Nat} {d : Dec} (h : Dec.TInv b i d) : b = i ∨ b + d.raw = i := by
  unfold Dec.TInv at h
  cases hst : d.st <;> rw [hst] at h <;> simp only [Dec.TI] at h
  · exact Or.inr h.1
  · exact Or.inr h.1
  · exact Or.inr h.1
  · exact Or.inr h.1
  · exact Or.inl h

/-- one operation: a reported count is a counter value, hence bounded by any bound `L` on `raw` -/
theorem step_report_seg {b i : Nat} {d : Dec} (hT : Dec.TInv b i d) (op : Op) (n L : Nat)
    (hr : d.raw ≤ L) :
    ((d.step op).2 = .out (.err (.discarded n)) → n + 8 ≤ L + 1) ∧
      ((d.step op).2 = .fin (some (.discarded n)) ∨ (d.step op).2 = .reset n → n ≤ L) := by
  have hb := tinv_raw hT
  constructor
  · intro ho
    cases op with
    | push x =>
      obtain ⟨b', e, _⟩ := Dec.tinv_push hT x
      have ho : (d.push x).2 = .err (.discarded n) := by simpa [Dec.step] using ho
      rw [ho] at e
      simp only [tileStep] at e
      by_cases hc : 8 + b ≤ i + 1 ∧ n = i + 1 - 8 - b ∧ 0 < n
      · omega
      · rw [if_neg hc] at e; cases e
    | fin => simp [Dec.step] at ho
    | reset => simp [Dec.step] at ho
    | new => simp [Dec.step] at ho
    | fromBuf stale => simp [Dec.step] at ho
  · intro ho
    cases op with
    | push x => simp [Dec.step] at ho
    | fin =>
      have ho : (d.finalize).2 = some (.discarded n) := by simpa [Dec.step] using ho
      have e := (Dec.tinv_finalize hT).1
      rw [ho] at e
      simp [tileEnd] at e
      omega
    | reset =>
      have ho : (d.reset).2 = n := by simpa [Dec.step] using ho
      have e := (Dec.tinv_reset_count hT).1
      rw [ho] at e
      simp [tileReset] at e
      omega
    | new => simp [Dec.step] at ho
    | fromBuf stale => simp [Dec.step] at ho

theorem run_report_seg (ops : List Op) : ∀ {b i : Nat} {d : Dec} (acc : List UInt8),
    Dec.TInv b i d → Inv d → d.raw ≤ acc.length →
    ∀ (k : Nat) (o : OpOut) (n : Nat), (Dec.run d ops).2[k]? = some o →
      (o = .out (.err (.discarded n)) → n + 8 ≤ ((ops.take (k + 1)).foldl Dec.consStep acc).length) ∧
      (o = .fin (some (.discarded n)) ∨ o = .reset n →
        n ≤ ((ops.take k).foldl Dec.consStep acc).length) := by
  induction ops with
  | nil => intro b i d acc _ _ _ k o n h; simp [Dec.run_nil] at h
  | cons op ops ih =>
    intro b i d acc hT hI hr k o n hk
    rw [Dec.run_cons] at hk
    cases k with
    | zero =>
      simp only [List.getElem?_cons_zero, Option.some.injEq] at hk
      subst hk
      have := step_report_seg hT op n acc.length hr
      refine ⟨?_, by simpa using this.2⟩
      intro ho
      have h8 := this.1 ho
      cases op with
      | push x => simpa [Dec.consStep] using h8
      | fin => simp [Dec.step] at ho
      | reset => simp [Dec.step] at ho
      | new => simp [Dec.step] at ho
      | fromBuf stale => simp [Dec.step] at ho
    | succ k =>
      simp only [List.getElem?_cons_succ] at hk
      obtain ⟨b', _, hT'⟩ := Dec.tinv_step hT op
      have := ih (Dec.consStep acc op) hT' (Dec.step_inv hI op) (step_raw_le hI op acc hr) k o n hk
      simpa only [List.take_succ_cons, List.foldl_cons] using this

/-- Every count reported at the `k`-th operation of a history is bounded by the number of bytes
pushed since the latest `finalize` / `reset` / `new` / `from_buf` before it: a
`DiscardedBytes(n)` from `push_byte` with `n + 8 ≤` that number including the current byte, a
`DiscardedBytes(n)` from `finalize` or the value `n` of `reset` with `n ≤` that number. -/
theorem reported_counts_le_segment (cap : Option Nat) (ops : List Op) (k : Nat) (o : OpOut) (n : Nat)
    (h : (Dec.run (Dec.fresh cap) ops).2[k]? = some o) :
    (o = .out (.err (.discarded n)) → n + 8 ≤ (C02.consumed (ops.take (k + 1))).length) ∧
    (o = .fin (some (.discarded n)) ∨ o = .reset n → n ≤ (C02.consumed (ops.take k)).length) := by
  rw [C02.consumed_eq, C02.consumed_eq]
  exact run_report_seg ops [] (Dec.tinv_fresh cap) (Dec.inv_fresh cap) (Nat.zero_le _) k o n h


theorem pushCount_append (l1 l2 : List Op) : pushCount (l1 ++ l2) = pushCount l1 + pushCount l2 := by
  induction l1 with
  | nil => simp [pushCount]
  | cons op l ih =>
    rw [List.cons_append, Dec.pushCount_cons op l, Dec.pushCount_cons op (l ++ l2), ih]; omega

theorem pushCount_take_le (ops : List Op) (k : Nat) : pushCount (ops.take k) ≤ pushCount ops := by
  conv => rhs; rw [← List.take_append_drop k ops, pushCount_append]
  omega

/-- Every count reported in a history — `Err(DiscardedBytes(n))` from `push_byte` or `finalize`,
or the value `n` returned by `reset` (which `DecoderReader` attaches to an I/O error) — at the
`k`-th operation is bounded by the number of bytes pushed by the operations `0..k`; a
`DiscardedBytes(n)` from `push_byte` even leaves room for the start sequence that triggered it. -/
theorem reported_counts_le_stream (cap : Option Nat) (ops : List Op) (k : Nat) (o : OpOut) (n : Nat)
    (h : (Dec.run (Dec.fresh cap) ops).2[k]? = some o) (hr : Reports o n) :
    n ≤ pushCount (ops.take (k + 1)) ∧ pushCount (ops.take (k + 1)) ≤ pushCount ops ∧
      (o = .out (.err (.discarded n)) → n + 8 ≤ pushCount (ops.take (k + 1))) := by
  obtain ⟨h1, h2⟩ := reported_counts_le_segment cap ops k o n h
  have c1 := consumed_length_le (ops.take (k + 1))
  have c2 := consumed_length_le (ops.take k)
  have c3 : pushCount (ops.take k) ≤ pushCount (ops.take (k + 1)) := by
    have := pushCount_take_le (ops.take (k + 1)) k
    rwa [List.take_take, Nat.min_eq_left (Nat.le_succ k)] at this
  refine ⟨?_, pushCount_take_le ops (k + 1), fun ho => Nat.le_trans (h1 ho) c1⟩
  rcases hr with hr | hr | hr
  · have := h1 hr; omega
  · have := h2 (Or.inl hr); omega
  · have := h2 (Or.inr hr); omega

/-- plain streams: a `DiscardedBytes(n)` reported by the byte at index `k` has `n + 8 ≤ k + 1` -/
theorem reported_counts_le_stream_pushAll (cap : Option Nat) (s : List UInt8) (k n : Nat)
    (h : (Dec.pushAll (Dec.fresh cap) s).2[k]? = some (Out.err (.discarded n))) :
    n + 8 ≤ k + 1 ∧ k + 1 ≤ s.length := by
  have hk : k < s.length := by
    have := (List.getElem?_eq_some_iff.1 h).1
    rwa [Dec.pushAll_length] at this
  have h' : (Dec.run (Dec.fresh cap) (s.map Op.push)).2[k]? =
      some (OpOut.out (Out.err (.discarded n))) := by
    rw [← (Dec.pushAll_eq_run s _).2, List.getElem?_map, h]; rfl
  have := (reported_counts_le_stream cap _ k _ n h' (Or.inl rfl)).2.2 rfl
  rw [← List.map_take, pushCount_map_push, List.length_take] at this
  omega


/-! ### non-vacuity -/

/-- a state `look disc init` with both counters non-zero is reached -/
example : (Dec.run (Dec.fresh none) [.push 0xaa, .push 0x1b, .push 0x1b]).1.st = .look 1 2 := by
  decide

/-- after a `reset` only the bytes pushed since then count: `consumed` has length 1, `pushCount` 3 -/
example : (C02.consumed [.push 0xaa, .push 0x1b, .reset, .push 0x1b]).length = 1 ∧
    pushCount [.push 0xaa, .push 0x1b, .reset, .push 0x1b] = 3 ∧
    (Dec.run (Dec.fresh none) [.push 0xaa, .push 0x1b, .reset, .push 0x1b]).1.raw = 1 := by
  decide

/-- all three kinds of report occur -/
example : (Dec.run (Dec.fresh (some 8))
      ([0xaa, 0x1b, 0x1b, 0x1b, 0x1b, 1, 1, 1, 1].map Op.push ++ [.push 5, .reset, .push 7, .fin])).2[8]? =
      some (OpOut.out (Out.err (.discarded 1))) ∧
    (Dec.run (Dec.fresh (some 8))
      ([0xaa, 0x1b, 0x1b, 0x1b, 0x1b, 1, 1, 1, 1].map Op.push ++ [.push 5, .reset, .push 7, .fin])).2[10]? =
      some (OpOut.reset 9) ∧
    (Dec.run (Dec.fresh (some 8))
      ([0xaa, 0x1b, 0x1b, 0x1b, 0x1b, 1, 1, 1, 1].map Op.push ++ [.push 5, .reset, .push 7, .fin])).2[12]? =
      some (OpOut.fin (some (.discarded 1))) := by
  decide +kernel

example : Reports (OpOut.reset 9) 9 := Or.inr (Or.inr rfl)

/-- `reported_counts_le_segment` is tight: `reset` at index 10 returns 9 after 9 + 1 pushes, and
the `finalize` at index 12 reports 1 = the one byte pushed since that `reset` (of 11 in total) -/
example : (C02.consumed (([0xaa, 0x1b, 0x1b, 0x1b, 0x1b, 1, 1, 1, 1].map Op.push ++
      [Op.push 5, Op.reset, Op.push 7, Op.fin]).take 10)).length = 10 ∧
    (C02.consumed (([0xaa, 0x1b, 0x1b, 0x1b, 0x1b, 1, 1, 1, 1].map Op.push ++
      [Op.push 5, Op.reset, Op.push 7, Op.fin]).take 12)).length = 1 := by decide

example : (Dec.pushAll (Dec.fresh none) [0xaa, 0x1b, 0x1b, 0x1b, 0x1b, 1, 1, 1, 1]).2[8]? =
    some (Out.err (.discarded 1)) := by decide +kernel

end C05

/-! ## (2) C12: the type-length field consumes a non-empty prefix -/

namespace C12

/-- If `parseTlf` succeeds, the remaining input `rest` is a suffix of the input and the number of
bytes of the field (`tlf_len` in tlf.rs:69, a `usize`), `bs.length - rest.length`, is at least 1 and
at most the input length. -/
theorem tlf_consumes_prefix (bs : Bytes) (t : Tlf) (rest : Bytes)
    (h : parseTlf bs = .ok (t, rest)) :
    rest.length ≤ bs.length ∧ 1 ≤ bs.length - rest.length ∧ bs.length - rest.length ≤ bs.length ∧
      (∃ pre, bs = pre ++ rest ∧ pre.length = bs.length - rest.length) := by
  obtain ⟨n, h1, h2, h3⟩ := tlf_rest bs t rest h
  subst h3
  have hl : (bs.drop n).length = bs.length - n := List.length_drop
  refine ⟨by omega, by omega, by omega, bs.take n, (List.take_append_drop n bs).symm, ?_⟩
  rw [List.length_take, hl]; omega

example : parseTlf [0x83, 0x02, 0xaa] = .ok (⟨.octetString, 48⟩, [0xaa]) := rfl


/-- the same for the byte count of the positional rule `Spec.tlfSpec` (which by `tlf_eq_spec` is
the number of bytes `parseTlf` consumes) -/
theorem tlfSpec_len_le (bs : Bytes) (t : Tlf) (n : Nat) (h : Spec.tlfSpec bs = .ok (t, n)) :
    1 ≤ n ∧ n ≤ bs.length := by
  have hs := tlf_eq_spec bs
  rw [h] at hs
  cases hp : parseTlf bs with
  | error e => rw [hp] at hs; cases hs
  | ok p =>
    obtain ⟨t', rest⟩ := p
    rw [hp] at hs
    injection hs with hs
    injection hs with _ hn
    obtain ⟨_, h1, h2, _⟩ := tlf_consumes_prefix bs t' rest hp
    omega

example : Spec.tlfSpec [0x83, 0x02, 0xaa] = .ok (⟨.octetString, 48⟩, 2) := rfl

end C12

/-! ## (3) C08: `StartFree` -/

namespace C08

/-- START has no period `t` with `0 < t < 8` -/
theorem START_no_period : ∀ t < 8, 0 < t → ∃ j < 8, t ≤ j ∧ START[j]? ≠ START[j - t]? := by
  decide

theorem START_length : START.length = 8 := rfl

/-- `StartFree g` (the start sequence occurs in `g ++ START` only at offset `|g|`) says exactly that
the start sequence does not occur in `g`: an occurrence that begins inside `g` and ends inside the
following start sequence is impossible because the start sequence has no period (`START_no_period`). -/
theorem startFree_iff (g : List UInt8) : StartFree g ↔ ¬ START <:+: g := by
  constructor
  · rintro h ⟨a, b, hab⟩
    have hk : a.length < g.length := by
      rw [← hab]; simp [START_length]; omega
    apply h a.length hk
    refine ⟨b ++ START, ?_⟩
    rw [← hab]
    simp [List.append_assoc]
  · intro h k hk hp
    by_cases hle : k + 8 ≤ g.length
    · apply h
      rw [List.drop_append_of_le_length (by omega)] at hp
      have hlen : START.length ≤ (g.drop k).length := by
        rw [List.length_drop, START_length]; omega
      have hp' : START <+: g.drop k := List.prefix_of_prefix_length_le hp (List.prefix_append _ _) hlen
      exact List.IsInfix.trans hp'.isInfix (List.drop_suffix k g).isInfix
    · rw [List.drop_append_of_le_length (by omega)] at hp
      have ht : (g.drop k).length = g.length - k := List.length_drop
      obtain ⟨j, hj8, htj, hne⟩ := START_no_period (g.length - k) (by omega) (by omega)
      apply hne
      obtain ⟨r, hr⟩ := hp
      have h1 : (START ++ r)[j]? = START[j]? := List.getElem?_append_left (by rw [START_length]; exact hj8)
      have h2 : (g.drop k ++ START)[j]? = START[j - (g.length - k)]? := by
        rw [List.getElem?_append_right (by omega), ht]
      rw [← h1, hr, h2]


/-- the `StartFree` witnesses of C08 in the infix form -/
example : ¬ START <:+: [0x1b, 0x1b, 0x1b, 0x1b, 0x01, 0x01, 0x01, 0x1b] :=
  (startFree_iff _).1 (by decide)

example : START <:+: [0x00] ++ START ++ [0x1b] := ⟨[0x00], [0x1b], rfl⟩

end C08

/-! ## (4) C15: the buffer type does not matter as long as its capacity is never exceeded -/

namespace Dec

/-- the outcome of `_push_byte` is not the out-of-memory error -/
def NoOom (x : Dec × Res) : Prop := x.2 ≠ .err .oom

theorem wf_of_cap_none {b : Buf} (h : b.cap = none) : b.WF := by
  unfold Buf.WF; rw [h]; trivial

theorem pushList_none (l : List UInt8) {d : Dec} (h : d.buf.cap = none) :
    d.pushList l = .ok (d.dataSteps l) ∧ (d.dataSteps l).buf.cap = none := by
  have g := grow_dataSteps l d
  have hc : (d.dataSteps l).buf.cap = none := g.cap.trans h
  rw [pushList_eq l (wf_of_cap_none h), if_pos (wf_of_cap_none hc)]
  exact ⟨rfl, hc⟩

theorem afterPush_noOom {d0 d : Dec} {l : List UInt8} {k : Dec → Dec × Res}
    (h : d.buf.cap = none) (hk : (d.dataSteps l).buf.cap = none → NoOom (k (d.dataSteps l))) :
    NoOom (afterPush d0 (d.pushList l) k) := by
  rw [(pushList_none l h).1]
  exact hk (pushList_none l h).2

theorem pushLook_noOom (d : Dec) (disc init : Nat) (b : UInt8) : NoOom (pushLook d disc init b) := by
  unfold pushLook NoOom
  dsimp only
  repeat' split
  all_goals simp

theorem pushEnd_noOom {d : Dec} (q : Quad) (h : d.buf.cap = none) : NoOom (pushEnd d q) := by
  unfold pushEnd
  simp only
  split
  · simp [NoOom]
  · split
    · simp [NoOom]
    · rw [flush_eq (d := { d with crc := crcInit, zc := d.zc - q.b.toNat }) (wf_of_cap_none h),
        if_pos (room_of_none (d := ⟨d.raw, crcInit, d.st, d.zc - q.b.toNat, d.buf⟩) h _)]
      simp [NoOom]

theorem pushEscComplete_noOom {d : Dec} (q : Quad) (h : d.buf.cap = none) :
    NoOom (pushEscComplete d q) := by
  unfold pushEscComplete
  dsimp only
  split
  · exact afterPush_noOom (d := { d with crc := crcUpdate d.crc q.toList }) h
      (fun _ => by simp [NoOom])
  · split
    · split <;> simp [NoOom]
    · split
      · exact pushEnd_noOom q h
      · split
        · rw [pushRep_eq_pushList]
          exact afterPush_noOom (d := { d with crc := crcUpdate d.crc _ }) h
            (fun _ => by simp [NoOom])
        · simp [NoOom]

/-- a decoder over a `Vec<u8>` (`cap = none`: `try_reserve` is assumed never to fail) never
reports `OutOfMemory` -/
theorem pushByte_noOom (d : Dec) (b : UInt8) (h : d.buf.cap = none) : NoOom (d.pushByte b) := by
  rcases d with ⟨raw, crc, st, zc, buf⟩
  simp only at h
  cases st with
  | look disc init => simp only [pushByte]; exact pushLook_noOom _ _ _ _
  | done => simp only [pushByte, reset]; exact pushLook_noOom _ _ _ _
  | normal =>
    simp only [pushByte]
    split
    · simp [NoOom]
    · rw [pushData_eq_pushList]
      exact afterPush_noOom (d := ⟨_, _, _, _, _⟩) h (fun _ => by simp [NoOom])
  | escChars n =>
    simp only [pushByte]
    split
    · rw [pushRep_eq_pushList]
      refine afterPush_noOom (d := ⟨_, _, _, _, _⟩) h ?_
      intro hc
      rw [pushData_eq_pushList]
      exact afterPush_noOom hc (fun _ => by simp [NoOom])
    · split
      · simp [NoOom]
      · split <;> simp [NoOom]
  | escPayload step q =>
    simp only [pushByte]
    split
    · simp [NoOom]
    · split
      · simp [NoOom]
      · exact pushEscComplete_noOom (d := ⟨_, _, _, _, _⟩) _ h

theorem push_noOom (d : Dec) (b : UInt8) (h : d.buf.cap = none) : (d.push b).2 ≠ .err .oom := by
  have := pushByte_noOom d b h
  rw [push_eq]
  unfold NoOom at this
  cases hr : (d.pushByte b).2 with
  | more => simp
  | ready => simp
  | err e => rw [hr] at this; simpa using this
  | panic s => simp

theorem pushAll_noOom (s : List UInt8) : ∀ {d : Dec}, Inv d → d.buf.cap = none →
    Out.err DecErr.oom ∉ (d.pushAll s).2 := by
  induction s with
  | nil => intro d _ _; simp [pushAll_nil]
  | cons b bs ih =>
    intro d h hc hm
    rw [pushAll_cons] at hm
    rcases List.mem_cons.1 hm with hm | hm
    · exact push_noOom d b hc hm.symm
    · exact ih (push_inv h b) ((push_cap h b).trans hc) hm

end Dec

namespace C15

/-- what `pushAll_rel` says about a new decoder: the `ArrayBuf<N>` run is the `Vec<u8>` run, or
there is an index `i` up to which the outputs agree and where the bounded decoder reports
`OutOfMemory` -/
theorem fresh_rel (s : List UInt8) (N : Nat) :
    ((Dec.pushAll (Dec.fresh (some N)) s).2 = (Dec.pushAll (Dec.fresh none) s).2 ∧
      (Dec.pushAll (Dec.fresh (some N)) s).1 =
        (Dec.pushAll (Dec.fresh none) s).1.withCapR (some N)) ∨
    ∃ i, i < s.length ∧
      (∀ j < i, (Dec.pushAll (Dec.fresh (some N)) s).2[j]? = (Dec.pushAll (Dec.fresh none) s).2[j]?) ∧
      (Dec.pushAll (Dec.fresh (some N)) s).2[i]? = some (Out.err DecErr.oom) := by
  have e : Dec.fresh (some N) = (Dec.fresh none).withCapR (some N) := rfl
  rcases Dec.pushAll_rel (some N) s (Dec.fresh none) rfl (Nat.zero_le N) with ⟨g1, _⟩ | ⟨i, hi, g1, _⟩
  · left
    rw [e, g1]
    exact ⟨rfl, rfl⟩
  · right
    rw [← e, Dec.pushAll_take, Dec.pushAll_take] at g1
    have hlU : ((Dec.pushAll (Dec.fresh none) s).2.take i).length = i := by
      rw [List.length_take, Dec.pushAll_length]; omega
    refine ⟨i, hi, ?_, ?_⟩
    · intro j hj
      have h1 : ((Dec.pushAll (Dec.fresh (some N)) s).2.take (i + 1))[j]? =
          (Dec.pushAll (Dec.fresh (some N)) s).2[j]? := List.getElem?_take_of_lt (by omega)
      have h2 : ((Dec.pushAll (Dec.fresh none) s).2.take i)[j]? =
          (Dec.pushAll (Dec.fresh none) s).2[j]? := List.getElem?_take_of_lt hj
      rw [← h1, g1, List.getElem?_append_left (by omega), h2]
    · have h1 : ((Dec.pushAll (Dec.fresh (some N)) s).2.take (i + 1))[i]? =
          (Dec.pushAll (Dec.fresh (some N)) s).2[i]? := List.getElem?_take_of_lt (by omega)
      rw [← h1, g1, List.getElem?_append_right (by omega), hlU]
      simp

/-- "The buffer type does not change any result as long as its capacity is never exceeded":
if the decoder over an `ArrayBuf<N>` never reports `OutOfMemory` on the stream `s` (whatever `N`
and `|s|`), all its `push_byte` results and its `finalize` result are those of the decoder over a
`Vec<u8>`. -/
theorem buffer_independent_noOom (s : List UInt8) (N : Nat)
    (h : Out.err DecErr.oom ∉ (Dec.pushAll (Dec.fresh (some N)) s).2) :
    (Dec.pushAll (Dec.fresh (some N)) s).2 = (Dec.pushAll (Dec.fresh none) s).2 ∧
    (Dec.pushAll (Dec.fresh (some N)) s).1.finalize.2 =
      (Dec.pushAll (Dec.fresh none) s).1.finalize.2 := by
  rcases fresh_rel s N with ⟨h1, h2⟩ | ⟨i, _, _, hi⟩
  · exact ⟨h1, by rw [h2]; rfl⟩
  · exact absurd (List.mem_of_getElem? hi) h

/-- at the first index where the results of `ArrayBuf<N>` and `Vec<u8>` differ, the bounded decoder
reports `OutOfMemory` -/
theorem first_difference_is_oom (s : List UInt8) (N : Nat) (i : Nat)
    (hsame : ∀ j < i,
      (Dec.pushAll (Dec.fresh (some N)) s).2[j]? = (Dec.pushAll (Dec.fresh none) s).2[j]?)
    (hdiff : (Dec.pushAll (Dec.fresh (some N)) s).2[i]? ≠ (Dec.pushAll (Dec.fresh none) s).2[i]?) :
    (Dec.pushAll (Dec.fresh (some N)) s).2[i]? = some (Out.err DecErr.oom) := by
  rcases fresh_rel s N with ⟨h1, _⟩ | ⟨i0, _, hlt, hi0⟩
  · rw [h1] at hdiff; exact absurd rfl hdiff
  · rcases Nat.lt_trichotomy i i0 with hlt' | heq | hgt
    · exact absurd (hlt i hlt') hdiff
    · rw [heq]; exact hi0
    · exfalso
      have := hsame i0 hgt
      rw [hi0] at this
      exact Dec.pushAll_noOom s (Dec.inv_fresh none) rfl (List.mem_of_getElem? this.symm)

/-- the `Vec<u8>` decoder never reports `OutOfMemory` -/
theorem vec_no_oom (s : List UInt8) : Out.err DecErr.oom ∉ (Dec.pushAll (Dec.fresh none) s).2 :=
  Dec.pushAll_noOom s (Dec.inv_fresh none) rfl

/-- the outputs differ iff the bounded decoder reports `OutOfMemory` somewhere -/
theorem differ_iff_oom (s : List UInt8) (N : Nat) :
    (Dec.pushAll (Dec.fresh (some N)) s).2 ≠ (Dec.pushAll (Dec.fresh none) s).2 ↔
      Out.err DecErr.oom ∈ (Dec.pushAll (Dec.fresh (some N)) s).2 := by
  constructor
  · intro hne
    apply Classical.byContradiction
    intro h
    exact hne (buffer_independent_noOom s N h).1
  · intro hm he
    rw [he] at hm
    exact vec_no_oom s hm


/-- if the outputs differ there is a first index where they do; there the bounded decoder reports
`OutOfMemory` (and the `Vec<u8>` decoder something else) -/
theorem first_difference_exists (s : List UInt8) (N : Nat)
    (hne : (Dec.pushAll (Dec.fresh (some N)) s).2 ≠ (Dec.pushAll (Dec.fresh none) s).2) :
    ∃ i, i < s.length ∧
      (∀ j < i,
        (Dec.pushAll (Dec.fresh (some N)) s).2[j]? = (Dec.pushAll (Dec.fresh none) s).2[j]?) ∧
      (Dec.pushAll (Dec.fresh (some N)) s).2[i]? = some (Out.err DecErr.oom) ∧
      (Dec.pushAll (Dec.fresh none) s).2[i]? ≠ some (Out.err DecErr.oom) := by
  rcases fresh_rel s N with ⟨h1, _⟩ | ⟨i, hi, hlt, hi0⟩
  · exact absurd h1 hne
  · exact ⟨i, hi, hlt, hi0, fun hc => vec_no_oom s (List.mem_of_getElem? hc)⟩

/-- all front-ends (`reference`, see `iter_eq`, `reader_eq`, `decode_eq`) over an `ArrayBuf<N>`
that never reports `OutOfMemory` on `s` report the `Vec<u8>` reference -/
theorem reference_buffer_independent_noOom (s : List UInt8) (N : Nat)
    (h : Out.err DecErr.oom ∉ (Dec.pushAll (Dec.fresh (some N)) s).2) :
    reference (some N) s = reference none s := by
  unfold reference finalItem
  rw [(buffer_independent_noOom s N h).1, (buffer_independent_noOom s N h).2]

/-! ### non-vacuity -/

/-- `sample` has 31 bytes (noise, the frame of a 4-byte payload, an unfinished frame); an
`ArrayBuf<4>` never runs out of memory on it, so `buffer_independent_noOom` applies although
`buffer_independent` (`31 ≤ N`) does not -/
example : Out.err DecErr.oom ∉ (Dec.pushAll (Dec.fresh (some 4)) sample).2 := by decide +kernel

example : (Dec.pushAll (Dec.fresh (some 4)) sample).2 = (Dec.pushAll (Dec.fresh none) sample).2 ∧
    (Dec.pushAll (Dec.fresh (some 4)) sample).1.finalize.2 =
      (Dec.pushAll (Dec.fresh none) sample).1.finalize.2 := by decide +kernel

/-- `ArrayBuf<3>`: the outputs agree up to index 12 and differ at index 13, where the bounded
decoder reports `OutOfMemory` (hypotheses of `first_difference_is_oom` / `first_difference_exists`) -/
example : (Dec.pushAll (Dec.fresh (some 3)) sample).2.take 13 =
      (Dec.pushAll (Dec.fresh none) sample).2.take 13 ∧
    (Dec.pushAll (Dec.fresh (some 3)) sample).2[13]? = some (Out.err DecErr.oom) ∧
    (Dec.pushAll (Dec.fresh none) sample).2[13]? = some Out.none := by decide +kernel

end C15

end Sml

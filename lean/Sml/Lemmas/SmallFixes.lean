import Sml.Props.C12
/-
  Small gap closers (review items L3 / L4 / L10).

  (a) `C12.tlf_iff` / `C12.tlf_error_iff`: `parseTlf` and the positional rule `Spec.tlfSpec` agree as
      an equivalence that also pins down the REMAINING INPUT (`C12.tlf_eq_spec` only compares the
      number of consumed bytes).
  (b) `C12.narrow_min`: `narrow w` is the least of the standard widths 1/2/4/8 that holds `w` bytes
      (`C12.narrow_ge` + `C12.narrow_mem` only say it is one of them and large enough).
  (c) `C12.contError_overflow_iff`: the staged overflow test of `Spec.contError`
      (`nibVal (first i bytes) * 16 > u32Max`, taken BEFORE the nibble of byte `i` is added) is the
      same as "the concatenated nibble value of the first `i + 1` bytes does not fit 32 bits".
  (d) `crc16_check_value`: the CRC-16/X.25 check value of the catalogue (`"123456789"` ↦ 0x906E).
-/
namespace Sml.C12
open Sml Sml.Spec

/-! ### (a) `parseTlf` = `tlfSpec`, including the remaining input -/

/-- `parseTlf` succeeds with field `t` and remaining input `rest` iff the rule yields `t` with a
field size `n` and `rest` is the input without its first `n` bytes. -/
theorem tlf_iff (bs : Bytes) (t : Tlf) (rest : Bytes) :
    parseTlf bs = .ok (t, rest) ↔
      ∃ n, Spec.tlfSpec bs = .ok (t, n) ∧ rest = bs.drop n ∧ n ≤ bs.length := by
  have hspec := parseTlf_eq_spec bs
  constructor
  · intro h
    obtain ⟨n, h1, _, h3, _⟩ := parseTlf_ok bs t rest h
    refine ⟨n, ?_, h3, h1⟩
    rw [← hspec, h]
    simp only [consumed, h3, List.length_drop]
    congr 2
    omega
  · rintro ⟨n, h1, h2, h3⟩
    rw [h1] at hspec
    cases hp : parseTlf bs with
    | error e => rw [hp] at hspec; simp [consumed] at hspec
    | ok v =>
      obtain ⟨t', rest'⟩ := v
      rw [hp] at hspec
      simp only [consumed, Except.ok.injEq, Prod.mk.injEq] at hspec
      obtain ⟨n', g1, _, g3, _⟩ := parseTlf_ok bs t' rest' hp
      have hn : n' = n := by
        have := hspec.2
        rw [g3, List.length_drop] at this
        omega
      rw [hspec.1, g3, hn, h2]

/-- the error kinds agree -/
theorem tlf_error_iff (bs : Bytes) (e : PErr) :
    parseTlf bs = .error e ↔ Spec.tlfSpec bs = .error e := by
  have hspec := parseTlf_eq_spec bs
  cases hp : parseTlf bs with
  | error e' =>
    rw [hp] at hspec
    simp only [consumed] at hspec
    rw [← hspec]
    simp
  | ok v =>
    obtain ⟨t', rest'⟩ := v
    rw [hp] at hspec
    simp only [consumed] at hspec
    rw [← hspec]
    simp

/-! ### (b) `narrow` is minimal -/

/-- every standard width that holds `w` bytes is at least `narrow w` -/
theorem narrow_min (w s : Nat) (hs : s ∈ [1, 2, 4, 8]) (h : w ≤ s) : narrow w ≤ s := by
  simp only [List.mem_cons, List.not_mem_nil, or_false] at hs
  unfold narrow
  rcases hs with rfl | rfl | rfl | rfl <;> (repeat' split) <;> omega

/-- so `narrow w` is THE narrowest standard width holding `w ≤ 8` bytes -/
theorem narrow_least (w : Nat) (hw : w ≤ 8) :
    narrow w ∈ [1, 2, 4, 8] ∧ w ≤ narrow w ∧ ∀ s ∈ [1, 2, 4, 8], w ≤ s → narrow w ≤ s :=
  ⟨narrow_mem w, narrow_ge w hw, fun s hs h => narrow_min w s hs h⟩

/-! ### (c) the staged overflow test -/

theorem nibVal_take_succ (input : Bytes) (i : Nat) (b : UInt8) (hb : input[i]? = some b) :
    nibVal (input.take (i + 1)) = nibVal (input.take i) * 16 + nib b := by
  rw [List.take_add_one, hb]
  exact nibVal_snoc _ _

/-- The test `nibVal (first i bytes) * 16 > u32Max` that `contError` makes at byte `i` (before that
byte's nibble is appended) holds iff the concatenated nibble value of the first `i + 1` bytes is
`≥ 2^32`, i.e. does not fit 32 bits. -/
theorem contError_overflow_iff (input : Bytes) (i : Nat) (hi : i < input.length) :
    nibVal (input.take i) * 16 > u32Max ↔ nibVal (input.take (i + 1)) ≥ 2 ^ 32 := by
  have hb : input[i]? = some input[i] := List.getElem?_eq_getElem hi
  rw [nibVal_take_succ input i _ hb]
  have := nib_lt input[i]
  simp only [u32Max]
  omega

/-- ... and `contError` reports `TlfLengthOverflow` at byte `i` exactly when that byte exists, has
clear type bits, and the value of the first `i + 1` bytes does not fit 32 bits. -/
theorem contError_eq_overflow_iff (input : Bytes) (i : Nat) :
    contError input i = some .tlfLengthOverflow ↔
      ∃ b, input[i]? = some b ∧ tyBits b = 0 ∧ nibVal (input.take (i + 1)) ≥ 2 ^ 32 := by
  unfold contError
  cases hb : input[i]? with
  | none => simp
  | some b =>
    have hi : i < input.length := (List.getElem?_eq_some_iff.1 hb).1
    have hov := contError_overflow_iff input i hi
    simp only [Option.some.injEq, exists_eq_left']
    by_cases hty : tyBits b = 0
    · simp only [hty, ne_eq, not_true_eq_false, if_false, true_and]
      by_cases ho : nibVal (input.take i) * 16 > u32Max
      · simp only [ho, if_true, true_iff]
        exact hov.1 ho
      · simp only [ho, if_false]
        constructor
        · intro h; cases h
        · intro h; exact absurd (hov.2 h) ho
    · simp [hty]

end Sml.C12

namespace Sml

/-! ### (d) CRC-16/X.25 known answer -/

/-- the check value of CRC-16/X.25 (IBM-SDLC) from the CRC catalogue: ASCII `"123456789"` -/
example : crc16 [0x31, 0x32, 0x33, 0x34, 0x35, 0x36, 0x37, 0x38, 0x39] = 0x906E := by
  decide +kernel

theorem crc16_check_value :
    crc16 [0x31, 0x32, 0x33, 0x34, 0x35, 0x36, 0x37, 0x38, 0x39] = 0x906E := by
  decide +kernel

/-- the empty message: init xor xorout -/
theorem crc16_nil : crc16 [] = 0x0000 := by decide +kernel

end Sml

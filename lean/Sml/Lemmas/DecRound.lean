import Sml.Lemmas.C07
import Sml.Model.Frontends
/-
  Helper lemmas for C01 / C16 (round trip through the transport codec), part 1:
  the data-push layer of the decoder (`pushInner`, `pushZeros`, `flush`, `pushData`, `pushRep`,
  `pushList`) when there is room in the buffer; `ofLe16 ∘ le16 = id`.
-/
namespace Sml
open Spec (stuffFrom stuff ctr padLen ESC frame framePrefix)
open C07

theorem ofLe16_le16 (x : UInt16) : ofLe16 x.toUInt8 (x >>> 8).toUInt8 = x := by
  unfold ofLe16
  apply UInt16.eq_of_toBitVec_eq
  simp only [UInt16.toBitVec_or, UInt8.toBitVec_toUInt16, UInt16.toBitVec_toUInt8,
    UInt16.toBitVec_shiftLeft, UInt16.toBitVec_shiftRight]
  ext i hi
  simp [BitVec.getElem_setWidth, BitVec.getLsbD_setWidth]
  by_cases h : i < 8
  · simp [h, BitVec.getLsbD_eq_getElem hi]
  · have h1 : i - 8 < 8 := by omega
    have h2 : 8 + (i - 8) = i := by omega
    simp [h, h1, h2, BitVec.getLsbD_eq_getElem hi]

theorem fitsCap_mono {cap : Option Nat} {n m : Nat} (h : fitsCap cap n) (hm : m ≤ n) :
    fitsCap cap m := by
  cases cap with
  | none => trivial
  | some c => exact Nat.le_trans hm h

theorem Buf.push_of_fits (b : Buf) (x : UInt8) (h : fitsCap b.cap (b.rdata.length + 1)) :
    b.push x = some { b with rdata := x :: b.rdata } := by
  unfold Buf.push Buf.isFull
  cases hc : b.cap with
  | none => simp
  | some c =>
    rw [hc] at h
    have : ¬ (c ≤ b.rdata.length) := by simp at h; omega
    simp [this]

namespace Dec

/-- buffer contents plus the withheld zeros -/
def dd (d : Dec) : List UInt8 := d.buf.data ++ List.replicate d.zc 0

theorem length_dd (d : Dec) : d.dd.length = d.buf.rdata.length + d.zc := by
  simp [dd, Buf.data]

theorem pushInner_ok (d : Dec) (b : UInt8) (h : fitsCap d.buf.cap (d.buf.rdata.length + 1)) :
    d.pushInner b = some { d with buf := { d.buf with rdata := b :: d.buf.rdata } } := by
  unfold pushInner
  rw [Buf.push_of_fits _ _ h]

theorem pushZeros_ok (k : Nat) : ∀ (d : Dec), fitsCap d.buf.cap (d.buf.rdata.length + k) →
    d.pushZeros k = some { d with buf := { d.buf with rdata := List.replicate k 0 ++ d.buf.rdata } } := by
  induction k with
  | zero => intro d _; rfl
  | succ k ih =>
    intro d h
    unfold pushZeros
    rw [pushInner_ok d 0 (fitsCap_mono h (by omega))]
    simp only
    rw [ih _ (by simpa [Nat.add_assoc, Nat.add_comm 1 k] using h)]
    simp [List.replicate_succ']

theorem flush_ok (d : Dec) (h : fitsCap d.buf.cap (d.buf.rdata.length + d.zc)) :
    d.flush = some { d with zc := 0, buf := { d.buf with rdata := List.replicate d.zc 0 ++ d.buf.rdata } } := by
  unfold flush
  rw [pushZeros_ok _ _ h]

/-- `d'` differs from `d` only in the buffer contents / zero cache -/
def Same (d d' : Dec) : Prop :=
  d'.raw = d.raw ∧ d'.crc = d.crc ∧ d'.st = d.st ∧ d'.buf.cap = d.buf.cap

theorem pushData_zero (d : Dec) (hz : d.zc ≤ 4)
    (h : d.zc = 4 → fitsCap d.buf.cap (d.buf.rdata.length + 1)) :
    ∃ d', d.pushData 0 = .ok d' ∧ Same d d' ∧ d'.dd = d.dd ++ [0] ∧ d'.zc = min 4 (d.zc + 1) := by
  unfold pushData
  by_cases h3 : d.zc ≤ 3
  · have : ¬ (d.zc + 1 > 255) := by omega
    simp only [if_true, if_pos h3, if_neg this]
    refine ⟨_, rfl, ⟨rfl, rfl, rfl, rfl⟩, ?_, ?_⟩
    · simp [dd, List.replicate_succ']
    · simp only; omega
  · have h4 : d.zc = 4 := by omega
    simp only [if_true, if_neg h3]
    rw [pushInner_ok d 0 (h h4)]
    refine ⟨_, rfl, ⟨rfl, rfl, rfl, rfl⟩, ?_, ?_⟩
    · simp [dd, Buf.data, h4]
    · simp only; omega

theorem pushData_ne (d : Dec) {b : UInt8} (hb : b ≠ 0)
    (h : fitsCap d.buf.cap (d.dd.length + 1)) :
    ∃ d', d.pushData b = .ok d' ∧ Same d d' ∧ d'.dd = d.dd ++ [b] ∧ d'.zc = 0 := by
  unfold pushData
  rw [length_dd] at h
  rw [if_neg hb, flush_ok d (fitsCap_mono h (by omega))]
  simp only
  rw [pushInner_ok _ _ (by simpa [Nat.add_comm d.zc] using h)]
  refine ⟨_, rfl, ⟨rfl, rfl, rfl, rfl⟩, ?_, rfl⟩
  simp [dd, Buf.data]

theorem pushData_any (d : Dec) (b : UInt8) (hz : d.zc ≤ 4)
    (h : fitsCap d.buf.cap (d.dd.length + 1)) :
    ∃ d', d.pushData b = .ok d' ∧ Same d d' ∧ d'.dd = d.dd ++ [b] ∧ d'.zc ≤ 4 := by
  by_cases hb : b = 0
  · subst hb
    obtain ⟨d', h1, h2, h3, h4⟩ := pushData_zero d hz
      (fun _ => fitsCap_mono h (by rw [length_dd]; omega))
    exact ⟨d', h1, h2, h3, by omega⟩
  · obtain ⟨d', h1, h2, h3, h4⟩ := pushData_ne d hb h
    exact ⟨d', h1, h2, h3, by omega⟩

theorem pushRep_1b (k : Nat) : ∀ (d : Dec), fitsCap d.buf.cap (d.dd.length + k) →
    ∃ d', d.pushRep 0x1b k = .ok d' ∧ Same d d' ∧ d'.dd = d.dd ++ List.replicate k 0x1b ∧
      (0 < k → d'.zc = 0) ∧ (k = 0 → d'.zc = d.zc) := by
  induction k with
  | zero =>
    intro d _
    exact ⟨d, rfl, ⟨rfl, rfl, rfl, rfl⟩, by simp, by simp, by simp⟩
  | succ k ih =>
    intro d h
    obtain ⟨d1, h1, hs1, hd1, hz1⟩ := pushData_ne d (b := 0x1b) (by decide) (fitsCap_mono h (by omega))
    have hfit : fitsCap d1.buf.cap (d1.dd.length + k) := by
      rw [hs1.2.2.2, hd1]
      simpa [Nat.add_assoc, Nat.add_comm 1 k] using h
    obtain ⟨d2, h2, hs2, hd2, hz2, hz2'⟩ := ih d1 hfit
    refine ⟨d2, ?_, ?_, ?_, ?_, by omega⟩
    · unfold pushRep
      rw [h1]
      exact h2
    · obtain ⟨a1, a2, a3, a4⟩ := hs1
      obtain ⟨b1, b2, b3, b4⟩ := hs2
      exact ⟨b1.trans a1, b2.trans a2, b3.trans a3, b4.trans a4⟩
    · rw [hd2, hd1, List.replicate_succ]
      simp
    · intro _
      cases k with
      | zero => rw [hz2' rfl, hz1]
      | succ k => exact hz2 (by omega)

theorem pushList_replicate (x : UInt8) (k : Nat) : ∀ (d : Dec),
    d.pushList (List.replicate k x) = d.pushRep x k := by
  induction k with
  | zero => intro d; rfl
  | succ k ih =>
    intro d
    rw [List.replicate_succ]
    unfold pushList pushRep
    cases d.pushData x with
    | ok d' => exact ih d'
    | oom => rfl
    | panic s => rfl

end Dec

/-! ### silent runs and single steps -/

namespace Dec

/-- feed bytes as long as `push_byte` answers `Ok(false)`; `none` as soon as it answers anything else -/
def quiet (d : Dec) : List UInt8 → Option Dec
  | [] => some d
  | b :: bs =>
    match d.pushByte b with
    | (d1, .more) => quiet d1 bs
    | _ => Option.none

theorem quiet_cons_of {d d1 : Dec} {b : UInt8} (h : d.pushByte b = (d1, .more)) (bs : List UInt8) :
    d.quiet (b :: bs) = d1.quiet bs := by
  simp [quiet, h]

theorem quiet_append_of {xs : List UInt8} : ∀ {d d1 : Dec}, d.quiet xs = some d1 →
    ∀ ys, d.quiet (xs ++ ys) = d1.quiet ys := by
  induction xs with
  | nil => intro d d1 h ys; cases h; rfl
  | cons x xs ih =>
    intro d d1 h ys
    simp only [quiet, List.cons_append] at h ⊢
    split at h
    · next d2 heq => exact ih h ys
    · cases h

/-- what is known about a decoder state in the middle of a frame -/
structure St (d : Dec) (raw : Nat) (crc : UInt16) (st : DState) (cap : Option Nat)
    (data : List UInt8) : Prop where
  raw : d.raw = raw
  crc : d.crc = crc
  st : d.st = st
  cap : d.buf.cap = cap
  data : d.dd = data
  zc : d.zc ≤ 4

theorem step_normal_1b {d : Dec} {raw crc cap data} (h : St d raw crc .normal cap data) :
    ∃ d', d.pushByte 0x1b = (d', .more) ∧
      St d' (raw + 1) (crcByte crc 0x1b) (.escChars 1) cap data ∧ d'.zc = d.zc := by
  obtain ⟨r, c, s, z, b⟩ := d
  obtain ⟨h1, h2, h3, h4, h5, h6⟩ := h
  simp only at h1 h2 h3 h4 h6
  subst h1 h2 h3
  exact ⟨⟨r + 1, crcByte c 0x1b, .escChars 1, z, b⟩, by simp [pushByte], ⟨rfl, rfl, rfl, h4, h5, h6⟩, rfl⟩


/-- transfer `St` along a data push -/
theorem St.after {d d' : Dec} {raw crc st cap data} (h : St d raw crc st cap data)
    (hs : Same d d') {data' : List UInt8} (hd : d'.dd = data') (hz : d'.zc ≤ 4) (st' : DState) :
    St { d' with st := st' } raw crc st' cap data' :=
  ⟨hs.1.trans h.raw, hs.2.1.trans h.crc, rfl, hs.2.2.2.trans h.cap, hd, hz⟩

theorem step_normal_ne {d : Dec} {raw crc cap data} {b : UInt8} (hb : b ≠ 0x1b)
    (h : St d raw crc .normal cap data) (hf : fitsCap cap (data.length + 1)) :
    ∃ d', d.pushByte b = (d', .more) ∧
      St d' (raw + 1) (crcByte crc b) .normal cap (data ++ [b]) ∧ (b ≠ 0 → d'.zc = 0) ∧
      (b = 0 → d'.zc = min 4 (d.zc + 1)) := by
  obtain ⟨r, c, s, z, bf⟩ := d
  obtain ⟨h1, h2, h3, h4, h5, h6⟩ := h
  simp only at h1 h2 h3 h4 h6
  subst h1 h2 h3 h4 h5
  by_cases h0 : b = 0
  · subst h0
    obtain ⟨d', hp, hs, hd, hz⟩ := pushData_zero ⟨r + 1, crcByte c 0, .normal, z, bf⟩ h6
      (fun _ => fitsCap_mono hf (by rw [length_dd]; simp only; omega))
    refine ⟨d', ?_, ⟨hs.1, hs.2.1, hs.2.2.1, hs.2.2.2, hd, by omega⟩, by simp, fun _ => hz⟩
    simp [pushByte, afterPush, hp]
  · obtain ⟨d', hp, hs, hd, hz⟩ := pushData_ne ⟨r + 1, crcByte c b, .normal, z, bf⟩ h0 hf
    refine ⟨d', ?_, ⟨hs.1, hs.2.1, hs.2.2.1, hs.2.2.2, hd, by omega⟩, fun _ => hz, by simp [h0]⟩
    simp [pushByte, afterPush, hp, hb]

/-- a zero byte in state `Normal` needs room only if four zeros are already withheld -/
theorem step_normal_zero {d : Dec} {raw crc cap data}
    (h : St d raw crc .normal cap data) (hf : d.zc = 4 → fitsCap cap (d.buf.rdata.length + 1)) :
    ∃ d', d.pushByte 0 = (d', .more) ∧
      St d' (raw + 1) (crcByte crc 0) .normal cap (data ++ [0]) ∧ d'.zc = min 4 (d.zc + 1) := by
  obtain ⟨r, c, s, z, bf⟩ := d
  obtain ⟨h1, h2, h3, h4, h5, h6⟩ := h
  simp only at h1 h2 h3 h4 h6 hf
  subst h1 h2 h3 h4 h5
  obtain ⟨d', hp, hs, hd, hz⟩ := pushData_zero ⟨r + 1, crcByte c 0, .normal, z, bf⟩ h6 hf
  refine ⟨d', ?_, ⟨hs.1, hs.2.1, hs.2.2.1, hs.2.2.2, hd, by omega⟩, hz⟩
  simp [pushByte, afterPush, hp]

theorem step_esc_1b_lt {d : Dec} {raw crc cap data} {n : Nat} (hn : n < 3)
    (h : St d raw crc (.escChars n) cap data) :
    ∃ d', d.pushByte 0x1b = (d', .more) ∧
      St d' (raw + 1) (crcByte crc 0x1b) (.escChars (n + 1)) cap data ∧ d'.zc = d.zc := by
  obtain ⟨r, c, s, z, b⟩ := d
  obtain ⟨h1, h2, h3, h4, h5, h6⟩ := h
  simp only at h1 h2 h3 h4 h6
  subst h1 h2 h3
  have h3 : n ≠ 3 := by omega
  have h255 : ¬ (n + 1 > 255) := by omega
  exact ⟨⟨r + 1, crcByte c 0x1b, .escChars (n + 1), z, b⟩, by simp [pushByte, h3]; omega,
    ⟨rfl, rfl, rfl, h4, h5, h6⟩, rfl⟩

theorem step_esc_1b_3 {d : Dec} {raw crc cap data}
    (h : St d raw crc (.escChars 3) cap data) :
    ∃ d', d.pushByte 0x1b = (d', .more) ∧
      St d' (raw + 1) (crcByte crc 0x1b) (.escPayload 0 Quad.zero) cap data ∧ d'.zc = d.zc := by
  obtain ⟨r, c, s, z, b⟩ := d
  obtain ⟨h1, h2, h3, h4, h5, h6⟩ := h
  simp only at h1 h2 h3 h4 h6
  subst h1 h2 h3
  exact ⟨⟨r + 1, crcByte c 0x1b, .escPayload 0 Quad.zero, z, b⟩, by simp [pushByte],
    ⟨rfl, rfl, rfl, h4, h5, h6⟩, rfl⟩

/-- a byte other than 0x1b after `n` pending 0x1b: the pending bytes are data -/
theorem step_esc_ne {d : Dec} {raw crc cap data} {n : Nat} {b : UInt8} (hb : b ≠ 0x1b)
    (h : St d raw crc (.escChars n) cap data)
    (hf : fitsCap cap (data.length + n + (if b = 0 ∧ 0 < n then 0 else 1))) :
    ∃ d', d.pushByte b = (d', .more) ∧
      St d' (raw + 1) (crcByte crc b) .normal cap (data ++ List.replicate n 0x1b ++ [b]) ∧
      (b = 0 → 0 < n → d'.zc = 1) := by
  obtain ⟨r, c, s, z, bf⟩ := d
  obtain ⟨h1, h2, h3, h4, h5, h6⟩ := h
  simp only at h1 h2 h3 h4 h6
  subst h1 h2 h3 h4 h5
  obtain ⟨d1, hp1, hs1, hd1, hz1, hz1'⟩ := pushRep_1b n ⟨r + 1, crcByte c b, .escChars n, z, bf⟩
    (fitsCap_mono hf (by simp only [dd]; omega))
  have hz14 : d1.zc ≤ 4 := by
    cases n with
    | zero => rw [hz1' rfl]; exact h6
    | succ n => rw [hz1 (by omega)]; omega
  have hpush : ∃ d2, d1.pushData b = .ok d2 ∧ Same d1 d2 ∧ d2.dd = d1.dd ++ [b] ∧ d2.zc ≤ 4 ∧
      (b = 0 → 0 < n → d2.zc = 1) := by
    by_cases hc : b = 0 ∧ 0 < n
    · obtain ⟨hb0, hn⟩ := hc
      subst hb0
      obtain ⟨d2, q1, q2, q3, q4⟩ := pushData_zero d1 hz14 (by rw [hz1 hn]; omega)
      exact ⟨d2, q1, q2, q3, by omega, fun _ _ => by rw [q4, hz1 hn]; rfl⟩
    · rw [if_neg hc] at hf
      obtain ⟨d2, q1, q2, q3, q4⟩ := pushData_any d1 b hz14 (by
        rw [hs1.2.2.2, hd1]
        simpa [Nat.add_assoc, dd] using hf)
      exact ⟨d2, q1, q2, q3, q4, fun h0 hn => absurd ⟨h0, hn⟩ hc⟩
  obtain ⟨d2, hp2, hs2, hd2, hz2, hz2'⟩ := hpush
  refine ⟨{ d2 with st := .normal }, ?_, ?_, hz2'⟩
  · simp [pushByte, afterPush, hp1, hp2, hb]
  · exact ⟨hs2.1.trans hs1.1, hs2.2.1.trans hs1.2.1, rfl, hs2.2.2.2.trans hs1.2.2.2,
      by show d2.dd = _; rw [hd2, hd1]; rfl, hz2⟩


theorem pushList_four (d : Dec) (x : UInt8) : d.pushList [x, x, x, x] = d.pushRep x 4 :=
  pushList_replicate x 4 d

/-- the literal escape `1b1b1b1b 1b1b1b1b`, entered with three pending 0x1b -/
theorem esc_literal {d : Dec} {raw crc cap data} (h : St d raw crc (.escChars 3) cap data)
    (hf : fitsCap cap (data.length + 4)) :
    ∃ d', d.quiet [0x1b, 0x1b, 0x1b, 0x1b, 0x1b] = some d' ∧
      St d' (raw + 5) (crcUpdate crc [0x1b, 0x1b, 0x1b, 0x1b, 0x1b]) .normal cap
        (data ++ List.replicate 4 0x1b) := by
  obtain ⟨r, c, s, z, bf⟩ := d
  obtain ⟨h1, h2, h3, h4, h5, h6⟩ := h
  simp only at h1 h2 h3 h4 h6
  subst h1 h2 h3 h4 h5
  obtain ⟨d1, hp1, hs1, hd1, hz1, _⟩ := pushRep_1b 4
    ⟨r + 1 + 1 + 1 + 1 + 1, crcByte (crcByte (crcByte (crcByte (crcByte c 0x1b) 0x1b) 0x1b) 0x1b) 0x1b,
      .escPayload 3 ⟨0x1b, 0x1b, 0x1b, 0⟩, z, bf⟩ hf
  refine ⟨{ d1 with st := .normal }, ?_, ?_⟩
  · simp [quiet, pushByte, Quad.set, Quad.zero, pushEscComplete, Quad.toList, pushList_four,
      crcUpdate, afterPush, hp1]
  · exact ⟨hs1.1, hs1.2.1, rfl, hs1.2.2.2, hd1, by rw [hz1 (by omega)]; omega⟩


/-- decoder state matching the encoder-side run counter `n` -/
def stOf (n : Nat) : DState := if n = 0 then .normal else .escChars n

theorem stOf_zero : stOf 0 = .normal := rfl
theorem stOf_pos {n : Nat} (h : n ≠ 0) : stOf n = .escChars n := by simp [stOf, h]

/-- The payload phase.  A decoder whose state matches the run counter `n` (the `n` pending 0x1b
are not yet in the buffer) consumes `stuffFrom n bs` silently; afterwards its state matches
`ctr n bs`, and buffer + withheld zeros + pending 0x1b have grown by exactly `bs`. -/
theorem sim_stuff (bs : List UInt8) : ∀ (d : Dec) (n raw : Nat) (crc : UInt16) (cap : Option Nat)
    (data : List UInt8), n < 4 → St d raw crc (stOf n) cap data →
    fitsCap cap (data.length + n + bs.length) →
    ∃ d' data', d.quiet (stuffFrom n bs) = some d' ∧
      St d' (raw + (stuffFrom n bs).length) (crcUpdate crc (stuffFrom n bs)) (stOf (ctr n bs)) cap data' ∧
      data' ++ List.replicate (ctr n bs) 0x1b = data ++ List.replicate n 0x1b ++ bs := by
  induction bs with
  | nil =>
    intro d n raw crc cap data _ h _
    exact ⟨d, data, rfl, h, by simp⟩
  | cons b bs ih =>
    intro d n raw crc cap data hn h hf
    by_cases hb : b = 0x1b
    · subst hb
      by_cases h3 : n = 3
      · subst h3
        rw [stOf_pos (by omega)] at h
        obtain ⟨d1, hq1, hs1⟩ := esc_literal h (fitsCap_mono hf (by simp; omega))
        obtain ⟨d2, data2, hq2, hs2, hd2⟩ := ih d1 0 _ _ cap _ (by omega) (by rw [stOf_zero]; exact hs1)
          (fitsCap_mono hf (by simp; omega))
        refine ⟨d2, data2, ?_, ?_, ?_⟩
        · rw [Spec.stuffFrom_cons_1b_three]
          have : (0x1b : UInt8) :: (ESC ++ stuffFrom 0 bs)
              = [0x1b, 0x1b, 0x1b, 0x1b, 0x1b] ++ stuffFrom 0 bs := rfl
          rw [this, quiet_append_of hq1]
          exact hq2
        · rw [Spec.stuffFrom_cons_1b_three, Spec.ctr_cons_1b_three]
          have : (0x1b : UInt8) :: (ESC ++ stuffFrom 0 bs)
              = [0x1b, 0x1b, 0x1b, 0x1b, 0x1b] ++ stuffFrom 0 bs := rfl
          rw [this, crcUpdate_append]
          have hl : raw + ([0x1b, 0x1b, 0x1b, 0x1b, 0x1b] ++ stuffFrom 0 bs).length
              = raw + 5 + (stuffFrom 0 bs).length := by simp; omega
          rw [hl]
          exact hs2
        · rw [Spec.ctr_cons_1b_three, hd2]
          simp [List.replicate_succ]
      · -- one more pending 0x1b
        have hstep : ∃ d1, d.pushByte 0x1b = (d1, .more) ∧
            St d1 (raw + 1) (crcByte crc 0x1b) (stOf (n + 1)) cap data := by
          rw [stOf_pos (by omega)]
          by_cases h0 : n = 0
          · subst h0
            obtain ⟨d1, a, b, _⟩ := step_normal_1b (by simpa [stOf_zero] using h)
            exact ⟨d1, a, b⟩
          · rw [stOf_pos h0] at h
            obtain ⟨d1, a, b, _⟩ := step_esc_1b_lt (by omega) h
            exact ⟨d1, a, b⟩
        obtain ⟨d1, hp1, hs1⟩ := hstep
        obtain ⟨d2, data2, hq2, hs2, hd2⟩ := ih d1 (n + 1) _ _ cap _ (by omega) hs1
          (fitsCap_mono hf (by simp; omega))
        refine ⟨d2, data2, ?_, ?_, ?_⟩
        · rw [Spec.stuffFrom_cons_1b_of_ne_three h3, quiet_cons_of hp1]
          exact hq2
        · rw [Spec.stuffFrom_cons_1b_of_ne_three h3, Spec.ctr_cons_1b_of_ne_three h3, crcUpdate_cons]
          have hl : raw + ((0x1b : UInt8) :: stuffFrom (n + 1) bs).length
              = raw + 1 + (stuffFrom (n + 1) bs).length := by simp; omega
          rw [hl]
          exact hs2
        · rw [Spec.ctr_cons_1b_of_ne_three h3, hd2]
          simp [List.replicate_succ']
    · -- a data byte: pending 0x1b (if any) become data
      have hstep : ∃ d1, d.pushByte b = (d1, .more) ∧
          St d1 (raw + 1) (crcByte crc b) (stOf 0) cap (data ++ List.replicate n 0x1b ++ [b]) := by
        by_cases h0 : n = 0
        · subst h0
          obtain ⟨d1, a, c, _⟩ := step_normal_ne hb (by simpa [stOf_zero] using h)
            (fitsCap_mono hf (by simp))
          exact ⟨d1, a, by simpa [stOf_zero] using c⟩
        · rw [stOf_pos h0] at h
          obtain ⟨d1, a, c, _⟩ := step_esc_ne hb h (fitsCap_mono hf (by simp; split <;> omega))
          exact ⟨d1, a, c⟩
      obtain ⟨d1, hp1, hs1⟩ := hstep
      obtain ⟨d2, data2, hq2, hs2, hd2⟩ := ih d1 0 _ _ cap _ (by omega) hs1
        (fitsCap_mono hf (by simp; omega))
      refine ⟨d2, data2, ?_, ?_, ?_⟩
      · rw [Spec.stuffFrom_cons_of_ne hb, quiet_cons_of hp1]
        exact hq2
      · rw [Spec.stuffFrom_cons_of_ne hb, Spec.ctr_cons_of_ne hb, crcUpdate_cons]
        have hl : raw + (b :: stuffFrom 0 bs).length = raw + 1 + (stuffFrom 0 bs).length := by
          simp; omega
        rw [hl]
        exact hs2
      · rw [Spec.ctr_cons_of_ne hb, hd2]
        simp

/-! ### start sequence, padding, end sequence -/

/-- the start sequence, from a decoder that is looking for it and has not discarded anything -/
theorem quiet_START (r : Nat) (c : UInt16) (z : Nat) (bf : Buf) :
    (⟨r, c, .look 0 0, z, bf⟩ : Dec).quiet START = some ⟨8, startCrc, .normal, z, bf⟩ := by
  simp [quiet, pushByte, pushLook, START]

/-- zero bytes in state `Normal` -/
theorem pad_zeros (k : Nat) : ∀ {d : Dec} {raw crc cap data}, St d raw crc .normal cap data →
    fitsCap cap (data.length + k - 4) →
    ∃ d', d.quiet (List.replicate k 0) = some d' ∧
      St d' (raw + k) (crcUpdate crc (List.replicate k 0)) .normal cap (data ++ List.replicate k 0) ∧
      d'.zc = min 4 (d.zc + k) := by
  induction k with
  | zero =>
    intro d raw crc cap data h _
    exact ⟨d, rfl, by simpa using h, by have := h.zc; omega⟩
  | succ k ih =>
    intro d raw crc cap data h hf
    obtain ⟨d1, hp1, hs1, hz1⟩ := step_normal_zero h (by
      intro h4
      have hl := congrArg List.length h.data
      rw [length_dd] at hl
      exact fitsCap_mono hf (by omega))
    obtain ⟨d2, hq2, hs2, hz2⟩ := ih hs1 (fitsCap_mono hf (by simp; omega))
    refine ⟨d2, ?_, ?_, ?_⟩
    · rw [List.replicate_succ, quiet_cons_of hp1]
      exact hq2
    · rw [List.replicate_succ, crcUpdate_cons]
      have e1 : raw + (k + 1) = raw + 1 + k := by omega
      have e2 : data ++ (0 : UInt8) :: List.replicate k 0 = data ++ [0] ++ List.replicate k 0 := by simp
      rw [e1, e2]
      exact hs2
    · rw [hz2, hz1]; omega

theorem pad_byte_facts {pad : Nat} (h : pad < 4) :
    (UInt8.ofNat pad).toNat = pad ∧ ¬ (UInt8.ofNat pad > 3) := by
  have : pad = 0 ∨ pad = 1 ∨ pad = 2 ∨ pad = 3 := by omega
  rcases this with rfl | rfl | rfl | rfl <;> decide

/-- the end sequence is accepted: aligned, checksum and pad count match, the pad bytes are among
the withheld zeros -/
theorem pushEnd_ok (d : Dec) (p : List UInt8) (pad : Nat) (X : UInt16)
    (hraw : d.raw % 4 = 0) (hlen : pad + 16 ≤ d.raw)
    (hcrc : crcFinal (crcUpdate d.crc [0x1a, UInt8.ofNat pad]) = X)
    (hpad : pad < 4) (hzc : pad ≤ d.zc) (hdd : d.dd = p ++ List.replicate pad 0)
    (hf : fitsCap d.buf.cap p.length) :
    ∃ d', d.pushEnd ⟨0x1a, UInt8.ofNat pad, X.toUInt8, (X >>> 8).toUInt8⟩ = (d', .ready) ∧
      d'.st = .done ∧ d'.buf.data = p ∧ d'.buf.cap = d.buf.cap ∧ d'.zc = 0 ∧ d'.raw = d.raw ∧
      d'.crc = crcInit := by
  obtain ⟨r, c, s, z, bf⟩ := d
  obtain ⟨hp1, hp2⟩ := pad_byte_facts hpad
  simp only at hraw hlen hcrc hzc hf
  have hz : z = (z - pad) + pad := by omega
  have hdata : bf.data ++ List.replicate (z - pad) 0 = p := by
    have : (bf.data ++ List.replicate (z - pad) 0) ++ List.replicate pad 0 = p ++ List.replicate pad 0 := by
      rw [← hdd, dd, List.append_assoc, List.replicate_append_replicate, ← hz]
    exact List.append_cancel_right this
  have hfl := flush_ok ⟨r, crcInit, s, z - pad, bf⟩ (by
    have := congrArg List.length hdata
    simp [Buf.data] at this
    simp only
    rw [this]; exact hf)
  refine ⟨⟨r, crcInit, .done, 0, { bf with rdata := List.replicate (z - pad) 0 ++ bf.rdata }⟩, ?_, rfl, ?_, rfl, rfl, rfl, rfl⟩
  · have h1 : ¬ (r < pad + 16) := by omega
    have h2 : ¬ (pad > z) := by omega
    simp [pushEnd, ofLe16_le16, hcrc, hraw, hp1, hp2, h1, h2, hfl]
  · simp only [Buf.data] at hdata ⊢
    rw [← hdata]
    simp


theorem pushByte_pay_lt {d : Dec} {step : Nat} {q q' : Quad} {b : UInt8}
    (hst : d.st = .escPayload step q) (hs : step < 3) (hq : q.set step b = some q') :
    d.pushByte b = ({ d with raw := d.raw + 1, st := .escPayload (step + 1) q' }, .more) := by
  obtain ⟨r, c, s, z, bf⟩ := d
  simp only at hst
  subst hst
  simp [pushByte, hq, hs]

theorem pushByte_pay_3 {d : Dec} {q : Quad} (b : UInt8) (hst : d.st = .escPayload 3 q) :
    d.pushByte b = pushEscComplete { d with raw := d.raw + 1 } { q with d := b } := by
  obtain ⟨r, c, s, z, bf⟩ := d
  simp only at hst
  subst hst
  simp [pushByte, Quad.set]

theorem pushEscComplete_1a {d : Dec} {q : Quad} (h : q.a = 0x1a) :
    pushEscComplete d q = pushEnd d q := by
  obtain ⟨a, b, c, e⟩ := q
  simp only at h
  subst h
  simp [pushEscComplete]

/-- the re-alignment branch (decode.rs:343-360): the first `k` bytes of the escape payload are
0x1b and belong to the data, the real end sequence starts `k` bytes later -/
theorem pushEscComplete_realign {d d' : Dec} {q : Quad} {k : Nat}
    (hk : (4 - d.raw % 4) % 4 = k) (hk0 : 0 < k) (h1b : ∀ x ∈ q.toList.take k, x = 0x1b)
    (h1a : q.get k = 0x1a)
    (hp : ({ d with crc := crcUpdate d.crc (q.toList.take k) } : Dec).pushRep 0x1b k = .ok d') :
    pushEscComplete d q = ({ d' with st := .escPayload (4 - k) (q.shift k) }, .more) := by
  obtain ⟨a, b, c, e⟩ := q
  have hk3 : k = 1 ∨ k = 2 ∨ k = 3 := by omega
  rcases hk3 with rfl | rfl | rfl
  all_goals
    simp [Quad.toList, Quad.get] at h1b h1a
    simp [pushEscComplete, hk, h1b, h1a, Quad.toList, Quad.get, afterPush] at hp ⊢
    simp [hp]


/-- `bytes` is consumed silently up to its last byte, which completes the message `p`;
`d'` is the decoder afterwards -/
def Delivers (d : Dec) (bytes p : List UInt8) (d' : Dec) : Prop :=
  ∃ xs y d1, bytes = xs ++ [y] ∧ d.quiet xs = some d1 ∧ d1.pushByte y = (d', .ready) ∧
    d'.st = .done ∧ d'.buf.data = p

theorem Delivers.prepend {d d1 d' : Dec} {as bs p : List UInt8} (h : d.quiet as = some d1)
    (h2 : Delivers d1 bs p d') : Delivers d (as ++ bs) p d' := by
  obtain ⟨xs, y, d2, e, hq, hp, hr⟩ := h2
  refine ⟨as ++ xs, y, d2, by rw [e, List.append_assoc], ?_, hp, hr⟩
  rw [quiet_append_of h]
  exact hq

/-- what is known about the decoder after a delivered frame -/
structure Fin (d' : Dec) (cap : Option Nat) (raw : Nat) : Prop where
  cap : d'.buf.cap = cap
  zc : d'.zc = 0
  raw : d'.raw = raw
  crc : d'.crc = crcInit

/-- the end sequence `1b1b1b1b 1a pad crc` from state `Normal` -/
theorem end_normal {d : Dec} {raw crc cap} {p : List UInt8} {pad : Nat} {X : UInt16}
    (h : St d raw crc .normal cap (p ++ List.replicate pad 0))
    (hpad : pad < 4) (hzc : pad ≤ d.zc) (hraw : raw % 4 = 0) (hlen : pad + 8 ≤ raw)
    (hcrc : crcFinal (crcUpdate crc [0x1b, 0x1b, 0x1b, 0x1b, 0x1a, UInt8.ofNat pad]) = X)
    (hf : fitsCap cap p.length) :
    ∃ d', Delivers d [0x1b, 0x1b, 0x1b, 0x1b, 0x1a, UInt8.ofNat pad, X.toUInt8, (X >>> 8).toUInt8] p d' ∧
      Fin d' cap (raw + 8) := by
  obtain ⟨r, c, s, z, bf⟩ := d
  obtain ⟨h1, h2, h3, h4, h5, h6⟩ := h
  simp only at h1 h2 h3 h4 h6 hzc
  subst h1 h2 h3 h4
  obtain ⟨d', hp, hst, hdata, hcap, hz, hr, hc⟩ :=
    pushEnd_ok ⟨r + 8, crcUpdate c [0x1b, 0x1b, 0x1b, 0x1b],
      .escPayload 3 ⟨0x1a, UInt8.ofNat pad, X.toUInt8, 0⟩, z, bf⟩ p pad X
      (by simp only; omega) (by simp only; omega)
      (by rw [← crcUpdate_append]; exact hcrc) hpad hzc h5 hf
  refine ⟨d', ⟨[0x1b, 0x1b, 0x1b, 0x1b, 0x1a, UInt8.ofNat pad, X.toUInt8], (X >>> 8).toUInt8,
    ⟨r + 7, crcUpdate c [0x1b, 0x1b, 0x1b, 0x1b],
      .escPayload 3 ⟨0x1a, UInt8.ofNat pad, X.toUInt8, 0⟩, z, bf⟩, rfl, ?_, ?_, hst, hdata⟩,
    ⟨hcap, hz, hr, hc⟩⟩
  · simp [quiet, pushByte, Quad.set, Quad.zero, crcUpdate, Nat.add_assoc]
  · rw [pushByte_pay_3 _ rfl, pushEscComplete_1a rfl]
    exact hp


/-- the last byte of the end sequence -/
theorem end_pay3 {d : Dec} {q : Quad} {p : List UInt8} {pad : Nat} {X : UInt16}
    (hst : d.st = .escPayload 3 q) (ha : q.a = 0x1a) (hb : q.b = UInt8.ofNat pad)
    (hc : q.c = X.toUInt8)
    (hraw : (d.raw + 1) % 4 = 0) (hlen : pad + 16 ≤ d.raw + 1)
    (hcrc : crcFinal (crcUpdate d.crc [0x1a, UInt8.ofNat pad]) = X)
    (hpad : pad < 4) (hzc : pad ≤ d.zc) (hdd : d.dd = p ++ List.replicate pad 0)
    (hf : fitsCap d.buf.cap p.length) :
    ∃ d', Delivers d [(X >>> 8).toUInt8] p d' ∧ Fin d' d.buf.cap (d.raw + 1) := by
  obtain ⟨a, b, c, e⟩ := q
  simp only at ha hb hc
  subst ha hb hc
  obtain ⟨d', hp, hst', hdata, hcap, hz, hr, hc⟩ :=
    pushEnd_ok { d with raw := d.raw + 1 } p pad X hraw hlen hcrc hpad hzc hdd hf
  refine ⟨d', ⟨[], _, d, rfl, rfl, ?_, hst', hdata⟩, ⟨hcap, hz, hr, hc⟩⟩
  rw [pushByte_pay_3 _ hst, pushEscComplete_1a rfl]
  exact hp

/-- the last two bytes of the end sequence -/
theorem end_pay2 {d : Dec} {q : Quad} {p : List UInt8} {pad : Nat} {X : UInt16}
    (hst : d.st = .escPayload 2 q) (ha : q.a = 0x1a) (hb : q.b = UInt8.ofNat pad)
    (hraw : (d.raw + 2) % 4 = 0) (hlen : pad + 16 ≤ d.raw + 2)
    (hcrc : crcFinal (crcUpdate d.crc [0x1a, UInt8.ofNat pad]) = X)
    (hpad : pad < 4) (hzc : pad ≤ d.zc) (hdd : d.dd = p ++ List.replicate pad 0)
    (hf : fitsCap d.buf.cap p.length) :
    ∃ d', Delivers d [X.toUInt8, (X >>> 8).toUInt8] p d' ∧ Fin d' d.buf.cap (d.raw + 2) := by
  have hstep := pushByte_pay_lt (b := X.toUInt8) hst (by omega) rfl
  obtain ⟨d', hd, hfin⟩ := end_pay3 (d := { d with raw := d.raw + 1, st := .escPayload 3 { q with c := X.toUInt8 } })
    (p := p) (pad := pad) (X := X) rfl ha hb rfl hraw hlen hcrc hpad hzc hdd hf
  exact ⟨d', Delivers.prepend (as := [X.toUInt8]) (by rw [quiet_cons_of hstep]; rfl) hd, hfin⟩

/-- the last three bytes of the end sequence -/
theorem end_pay1 {d : Dec} {q : Quad} {p : List UInt8} {pad : Nat} {X : UInt16}
    (hst : d.st = .escPayload 1 q) (ha : q.a = 0x1a)
    (hraw : (d.raw + 3) % 4 = 0) (hlen : pad + 16 ≤ d.raw + 3)
    (hcrc : crcFinal (crcUpdate d.crc [0x1a, UInt8.ofNat pad]) = X)
    (hpad : pad < 4) (hzc : pad ≤ d.zc) (hdd : d.dd = p ++ List.replicate pad 0)
    (hf : fitsCap d.buf.cap p.length) :
    ∃ d', Delivers d [UInt8.ofNat pad, X.toUInt8, (X >>> 8).toUInt8] p d' ∧
      Fin d' d.buf.cap (d.raw + 3) := by
  have hstep := pushByte_pay_lt (b := UInt8.ofNat pad) hst (by omega) rfl
  obtain ⟨d', hd, hfin⟩ := end_pay2 (d := { d with raw := d.raw + 1, st := .escPayload 2 { q with b := UInt8.ofNat pad } })
    (p := p) (pad := pad) (X := X) rfl ha rfl hraw hlen hcrc hpad hzc hdd hf
  exact ⟨d', Delivers.prepend (as := [UInt8.ofNat pad]) (by rw [quiet_cons_of hstep]; rfl) hd, hfin⟩


theorem Fin.of_eq {d' : Dec} {cap cap' : Option Nat} {raw raw' : Nat} (h : Fin d' cap raw)
    (hc : cap = cap') (hr : raw = raw') : Fin d' cap' raw' := by
  subst hc hr; exact h

/-- The payload ends with one 0x1b and the frame needs no padding: the decoder sees five 0x1b in a
row, takes the first four for the escape, and re-aligns when the escape payload `1b 1a 00 lo`
is complete. -/
theorem end_realign1 {d : Dec} {raw crc cap data} {p : List UInt8} {X : UInt16}
    (h : St d raw crc (.escChars 1) cap data) (hp : data ++ [0x1b] = p)
    (hraw : raw % 4 = 0) (hlen : 8 ≤ raw)
    (hcrc : crcFinal (crcUpdate crc [0x1b, 0x1b, 0x1b, 0x1b, 0x1a, 0]) = X)
    (hf : fitsCap cap p.length) :
    ∃ d', Delivers d [0x1b, 0x1b, 0x1b, 0x1b, 0x1a, 0, X.toUInt8, (X >>> 8).toUInt8] p d' ∧
      Fin d' cap (raw + 8) := by
  obtain ⟨r, c, s, z, bf⟩ := d
  obtain ⟨h1, h2, h3, h4, h5, h6⟩ := h
  simp only at h1 h2 h3 h4 h6
  subst h1 h2 h3 h4
  have hq6 : (⟨r, c, .escChars 1, z, bf⟩ : Dec).quiet [0x1b, 0x1b, 0x1b, 0x1b, 0x1a, 0] =
      some ⟨r + 6, crcUpdate c [0x1b, 0x1b, 0x1b], .escPayload 3 ⟨0x1b, 0x1a, 0, 0⟩, z, bf⟩ := by
    simp [quiet, pushByte, Quad.set, Quad.zero, crcUpdate, Nat.add_assoc]
  obtain ⟨d2, hp2, hs2, hd2, hz2, _⟩ := pushRep_1b 1
    ⟨r + 6 + 1, crcUpdate (crcUpdate c [0x1b, 0x1b, 0x1b])
        ((Quad.toList ⟨0x1b, 0x1a, 0, X.toUInt8⟩).take 1),
      .escPayload 3 ⟨0x1b, 0x1a, 0, 0⟩, z, bf⟩
    (by rw [← hp, ← h5] at hf; simpa [dd, Nat.add_assoc] using hf)
  have hstep : (⟨r + 6, crcUpdate c [0x1b, 0x1b, 0x1b], .escPayload 3 ⟨0x1b, 0x1a, 0, 0⟩, z, bf⟩ : Dec).pushByte
      X.toUInt8 = ({ d2 with st := .escPayload 3 (Quad.shift ⟨0x1b, 0x1a, 0, X.toUInt8⟩ 1) }, .more) := by
    rw [pushByte_pay_3 _ rfl]
    exact pushEscComplete_realign (k := 1) (by simp only; omega) (by omega) (by simp [Quad.toList])
      rfl hp2
  obtain ⟨d', hd, hfin⟩ := end_pay3 (d := { d2 with st := .escPayload 3 (Quad.shift ⟨0x1b, 0x1a, 0, X.toUInt8⟩ 1) })
    (p := p) (pad := 0) (X := X) rfl rfl rfl rfl
    (by simp only; rw [hs2.1]; simp only; omega) (by simp only; rw [hs2.1]; simp only; omega)
    (by
      simp only
      rw [hs2.2.1]
      simp only [Quad.toList, List.take]
      rw [← crcUpdate_append, ← crcUpdate_append]
      exact hcrc)
    (by omega) (by omega)
    (by show d2.dd = _; rw [hd2, ← hp, ← h5]; simp [dd])
    (by simp only; rw [hs2.2.2.2]; exact hf)
  refine ⟨d', ?_, hfin.of_eq hs2.2.2.2 (by simp only; rw [hs2.1])⟩
  have := Delivers.prepend (as := [0x1b, 0x1b, 0x1b, 0x1b, 0x1a, 0] ++ [X.toUInt8])
    (by rw [quiet_append_of hq6, quiet_cons_of hstep]; rfl) hd
  exact this


/-- the payload ends with two 0x1b and the frame needs no padding -/
theorem end_realign2 {d : Dec} {raw crc cap data} {p : List UInt8} {X : UInt16}
    (h : St d raw crc (.escChars 2) cap data) (hp : data ++ [0x1b, 0x1b] = p)
    (hraw : raw % 4 = 0) (hlen : 8 ≤ raw)
    (hcrc : crcFinal (crcUpdate crc [0x1b, 0x1b, 0x1b, 0x1b, 0x1a, 0]) = X)
    (hf : fitsCap cap p.length) :
    ∃ d', Delivers d [0x1b, 0x1b, 0x1b, 0x1b, 0x1a, 0, X.toUInt8, (X >>> 8).toUInt8] p d' ∧
      Fin d' cap (raw + 8) := by
  obtain ⟨r, c, s, z, bf⟩ := d
  obtain ⟨h1, h2, h3, h4, h5, h6⟩ := h
  simp only at h1 h2 h3 h4 h6
  subst h1 h2 h3 h4
  have hq5 : (⟨r, c, .escChars 2, z, bf⟩ : Dec).quiet [0x1b, 0x1b, 0x1b, 0x1b, 0x1a] =
      some ⟨r + 5, crcUpdate c [0x1b, 0x1b], .escPayload 3 ⟨0x1b, 0x1b, 0x1a, 0⟩, z, bf⟩ := by
    simp [quiet, pushByte, Quad.set, Quad.zero, crcUpdate, Nat.add_assoc]
  obtain ⟨d2, hp2, hs2, hd2, hz2, _⟩ := pushRep_1b 2
    ⟨r + 5 + 1, crcUpdate (crcUpdate c [0x1b, 0x1b])
        ((Quad.toList ⟨0x1b, 0x1b, 0x1a, 0⟩).take 2),
      .escPayload 3 ⟨0x1b, 0x1b, 0x1a, 0⟩, z, bf⟩
    (by rw [← hp, ← h5] at hf; simpa [dd, Nat.add_assoc] using hf)
  have hstep : (⟨r + 5, crcUpdate c [0x1b, 0x1b], .escPayload 3 ⟨0x1b, 0x1b, 0x1a, 0⟩, z, bf⟩ : Dec).pushByte
      0 = ({ d2 with st := .escPayload 2 (Quad.shift ⟨0x1b, 0x1b, 0x1a, 0⟩ 2) }, .more) := by
    rw [pushByte_pay_3 _ rfl]
    exact pushEscComplete_realign (k := 2) (by simp only; omega) (by omega) (by simp [Quad.toList])
      rfl hp2
  obtain ⟨d', hd, hfin⟩ := end_pay2 (d := { d2 with st := .escPayload 2 (Quad.shift ⟨0x1b, 0x1b, 0x1a, 0⟩ 2) })
    (p := p) (pad := 0) (X := X) rfl rfl rfl
    (by simp only; rw [hs2.1]; simp only; omega) (by simp only; rw [hs2.1]; simp only; omega)
    (by
      simp only
      rw [hs2.2.1]
      simp only [Quad.toList, List.take]
      rw [← crcUpdate_append, ← crcUpdate_append]
      exact hcrc)
    (by omega) (by omega)
    (by show d2.dd = _; rw [hd2, ← hp, ← h5]; simp [dd])
    (by simp only; rw [hs2.2.2.2]; exact hf)
  refine ⟨d', ?_, hfin.of_eq hs2.2.2.2 (by simp only; rw [hs2.1])⟩
  have := Delivers.prepend (as := [0x1b, 0x1b, 0x1b, 0x1b, 0x1a] ++ [0])
    (by rw [quiet_append_of hq5, quiet_cons_of hstep]; rfl) hd
  exact this

/-- the payload ends with three 0x1b and the frame needs no padding -/
theorem end_realign3 {d : Dec} {raw crc cap data} {p : List UInt8} {X : UInt16}
    (h : St d raw crc (.escChars 3) cap data) (hp : data ++ [0x1b, 0x1b, 0x1b] = p)
    (hraw : raw % 4 = 0) (hlen : 8 ≤ raw)
    (hcrc : crcFinal (crcUpdate crc [0x1b, 0x1b, 0x1b, 0x1b, 0x1a, 0]) = X)
    (hf : fitsCap cap p.length) :
    ∃ d', Delivers d [0x1b, 0x1b, 0x1b, 0x1b, 0x1a, 0, X.toUInt8, (X >>> 8).toUInt8] p d' ∧
      Fin d' cap (raw + 8) := by
  obtain ⟨r, c, s, z, bf⟩ := d
  obtain ⟨h1, h2, h3, h4, h5, h6⟩ := h
  simp only at h1 h2 h3 h4 h6
  subst h1 h2 h3 h4
  have hq4 : (⟨r, c, .escChars 3, z, bf⟩ : Dec).quiet [0x1b, 0x1b, 0x1b, 0x1b] =
      some ⟨r + 4, crcUpdate c [0x1b], .escPayload 3 ⟨0x1b, 0x1b, 0x1b, 0⟩, z, bf⟩ := by
    simp [quiet, pushByte, Quad.set, Quad.zero, crcUpdate, Nat.add_assoc]
  obtain ⟨d2, hp2, hs2, hd2, hz2, _⟩ := pushRep_1b 3
    ⟨r + 4 + 1, crcUpdate (crcUpdate c [0x1b])
        ((Quad.toList ⟨0x1b, 0x1b, 0x1b, 0x1a⟩).take 3),
      .escPayload 3 ⟨0x1b, 0x1b, 0x1b, 0⟩, z, bf⟩
    (by rw [← hp, ← h5] at hf; simpa [dd, Nat.add_assoc] using hf)
  have hstep : (⟨r + 4, crcUpdate c [0x1b], .escPayload 3 ⟨0x1b, 0x1b, 0x1b, 0⟩, z, bf⟩ : Dec).pushByte
      0x1a = ({ d2 with st := .escPayload 1 (Quad.shift ⟨0x1b, 0x1b, 0x1b, 0x1a⟩ 3) }, .more) := by
    rw [pushByte_pay_3 _ rfl]
    exact pushEscComplete_realign (k := 3) (by simp only; omega) (by omega) (by simp [Quad.toList])
      rfl hp2
  obtain ⟨d', hd, hfin⟩ := end_pay1 (d := { d2 with st := .escPayload 1 (Quad.shift ⟨0x1b, 0x1b, 0x1b, 0x1a⟩ 3) })
    (p := p) (pad := 0) (X := X) rfl rfl
    (by simp only; rw [hs2.1]; simp only; omega) (by simp only; rw [hs2.1]; simp only; omega)
    (by
      simp only
      rw [hs2.2.1]
      simp only [Quad.toList, List.take]
      rw [← crcUpdate_append, ← crcUpdate_append]
      exact hcrc)
    (by omega) (by omega)
    (by show d2.dd = _; rw [hd2, ← hp, ← h5]; simp [dd])
    (by simp only; rw [hs2.2.2.2]; exact hf)
  refine ⟨d', ?_, hfin.of_eq hs2.2.2.2 (by simp only; rw [hs2.1])⟩
  have := Delivers.prepend (as := [0x1b, 0x1b, 0x1b, 0x1b] ++ [0x1a])
    (by rw [quiet_append_of hq4, quiet_cons_of hstep]; rfl) hd
  exact this

/-! ### the complete frame -/

theorem pushAll_quiet {xs : List UInt8} : ∀ {d d1 : Dec}, d.quiet xs = some d1 →
    Dec.pushAll d xs = (d1, List.replicate xs.length Out.none) := by
  induction xs with
  | nil => intro d d1 h; cases h; rfl
  | cons x xs ih =>
    intro d d1 h
    simp only [quiet] at h
    split at h
    · next d2 heq =>
      simp only [pushAll, push, heq, ih h, List.length_cons, List.replicate_succ]
    · cases h

theorem pushAll_appendR (xs ys : List UInt8) : ∀ (d : Dec),
    Dec.pushAll d (xs ++ ys) =
      ((Dec.pushAll (Dec.pushAll d xs).1 ys).1, (Dec.pushAll d xs).2 ++ (Dec.pushAll (Dec.pushAll d xs).1 ys).2) := by
  induction xs with
  | nil => intro d; rfl
  | cons x xs ih =>
    intro d
    simp only [List.cons_append, pushAll, ih]

theorem push_ready {d d' : Dec} {y : UInt8} (h : d.pushByte y = (d', .ready)) (hst : d'.st = .done) :
    d.push y = (d', .msg d'.buf.data) := by
  simp [push, h, borrowBuf, isDone, hst]

theorem Delivers.pushAll {d d' : Dec} {bytes p : List UInt8} (h : Delivers d bytes p d') :
    Dec.pushAll d bytes = (d', List.replicate (bytes.length - 1) Out.none ++ [Out.msg p]) := by
  obtain ⟨xs, y, d1, e, hq, hp, hst, hdata⟩ := h
  subst e
  rw [pushAll_appendR, pushAll_quiet hq]
  simp [Dec.pushAll, push_ready hp hst, hdata]

end Dec

theorem crc_framePrefix (p : List UInt8) :
    crc16 (framePrefix p) =
      crcFinal (crcUpdate (crcUpdate (crcUpdate startCrc (stuff p))
        (List.replicate (padLen (Spec.START ++ stuff p).length) 0))
        [0x1b, 0x1b, 0x1b, 0x1b, 0x1a, UInt8.ofNat (padLen (Spec.START ++ stuff p).length)]) := by
  rw [framePrefix_eq_parts, crc16, ← crcUpdate_crcInit_START_append,
    ← crcUpdate_append, ← crcUpdate_append, List.append_assoc (Spec.START ++ stuff p)]


theorem drop8_frame (p : List UInt8) :
    (frame p).drop 8 = stuff p ++ (List.replicate (padLen (Spec.START ++ stuff p).length) (0 : UInt8) ++
      [0x1b, 0x1b, 0x1b, 0x1b, 0x1a, UInt8.ofNat (padLen (Spec.START ++ stuff p).length),
        (crc16 (framePrefix p)).toUInt8, (crc16 (framePrefix p) >>> 8).toUInt8]) := by
  rw [frame_eq_parts]
  rfl

namespace Dec

/-- The rest of a frame from the state right after the start sequence (buffer empty, nothing
withheld): silence up to the last byte, which delivers the payload. Independent of how the decoder
got into that state. -/
theorem tail_delivers (d : Dec) (p : List UInt8) (h1 : d.st = .normal) (h2 : d.raw = 8)
    (h3 : d.crc = startCrc) (h4 : d.zc = 0) (h5 : d.buf.rdata = [])
    (h6 : fitsCap d.buf.cap p.length) :
    ∃ d', Delivers d ((frame p).drop 8) p d' ∧ Fin d' d.buf.cap (frame p).length := by
  have hst : St d 8 startCrc (stOf 0) d.buf.cap [] :=
    ⟨h2, h3, h1, rfl, by simp [dd, Buf.data, h4, h5], by omega⟩
  obtain ⟨d1, data1, hq1, hs1, hd1⟩ := sim_stuff p d 0 8 startCrc d.buf.cap [] (by omega) hst
    (by simpa using h6)
  have hc := Spec.ctr_lt_4 (n := 0) (by omega) p
  -- abbreviations
  have hs : stuffFrom 0 p = stuff p := rfl
  rw [hs] at hq1 hs1
  have hpadlt := Spec.padLen_lt_4 (Spec.START ++ stuff p).length
  have hal := Spec.padLen_spec (Spec.START ++ stuff p).length
  have hL : (Spec.START ++ stuff p).length = 8 + (stuff p).length := by
    simp [Spec.length_START]
  have hcrc := (crc_framePrefix p).symm
  have hlenf := length_frame p
  rw [drop8_frame]
  generalize crc16 (framePrefix p) = X at hcrc ⊢
  generalize hpad : padLen (Spec.START ++ stuff p).length = pad at *
  rw [hL] at hal
  simp only [List.nil_append, List.replicate_zero] at hd1
  by_cases hc0 : ctr 0 p = 0
  · -- no pending 0x1b
    rw [hc0, stOf_zero] at hs1
    rw [hc0] at hd1
    simp only [List.replicate_zero, List.append_nil] at hd1
    subst hd1
    obtain ⟨d2, hq2, hs2, hz2⟩ := pad_zeros pad hs1 (fitsCap_mono h6 (by omega))
    obtain ⟨d', hd, hfin⟩ := end_normal hs2 hpadlt (by have := hs1.zc; omega) hal (by omega) hcrc h6
    refine ⟨d', Delivers.prepend hq1 (Delivers.prepend hq2 hd), hfin.of_eq rfl (by omega)⟩
  · rw [stOf_pos hc0] at hs1
    by_cases hp0 : pad = 0
    · -- aligned frame ending in 1..3 0x1b: re-alignment
      subst hp0
      have h0 : UInt8.ofNat 0 = 0 := rfl
      rw [h0] at hcrc ⊢
      simp only [List.replicate_zero, crcUpdate_nil] at hcrc
      have hcases : ctr 0 p = 1 ∨ ctr 0 p = 2 ∨ ctr 0 p = 3 := by omega
      have hend : ∃ d', Delivers d1 [0x1b, 0x1b, 0x1b, 0x1b, 0x1a, 0, X.toUInt8, (X >>> 8).toUInt8] p d' ∧
          Fin d' d.buf.cap (8 + (stuff p).length + 8) := by
        rcases hcases with hc1 | hc1 | hc1 <;> rw [hc1] at hs1 hd1
        · exact end_realign1 hs1 hd1 (by omega) (by omega) hcrc h6
        · exact end_realign2 hs1 hd1 (by omega) (by omega) hcrc h6
        · exact end_realign3 hs1 hd1 (by omega) (by omega) hcrc h6
      obtain ⟨d', hd, hfin⟩ := hend
      refine ⟨d', Delivers.prepend hq1 (by simpa using hd), hfin.of_eq rfl (by omega)⟩
    · -- the first pad byte flushes the pending 0x1b
      obtain ⟨k, rfl⟩ : ∃ k, pad = k + 1 := ⟨pad - 1, by omega⟩
      obtain ⟨d2, hp2, hs2, hz2⟩ := step_esc_ne (b := 0) (by decide) hs1 (by
        have := congrArg List.length hd1
        simp at this
        have hpos : 0 < ctr 0 p := by omega
        simp only [hpos, and_self, if_true]
        rw [this]; simpa using h6)
      rw [hd1] at hs2
      obtain ⟨d3, hq3, hs3, hz3⟩ := pad_zeros k hs2 (fitsCap_mono h6 (by simp; omega))
      have hdata : p ++ [0] ++ List.replicate k 0 = p ++ List.replicate (k + 1) 0 := by
        simp [List.replicate_succ]
      have hcrc3 : crcUpdate (crcByte (crcUpdate startCrc (stuff p)) 0) (List.replicate k 0)
          = crcUpdate (crcUpdate startCrc (stuff p)) (List.replicate (k + 1) 0) := by
        rw [List.replicate_succ, crcUpdate_cons]
      rw [hdata, hcrc3] at hs3
      obtain ⟨d', hd, hfin⟩ := end_normal hs3 hpadlt
        (by rw [hz3, hz2 rfl (by omega)]; omega) (by omega) (by omega) hcrc h6
      refine ⟨d', Delivers.prepend hq1 ?_, hfin.of_eq rfl (by omega)⟩
      rw [List.replicate_succ, List.cons_append]
      exact Delivers.prepend (as := [0]) (by rw [quiet_cons_of hp2]; rfl) (Delivers.prepend hq3 hd)


theorem frame_eq_START_drop8 (p : List UInt8) : frame p = Sml.START ++ (frame p).drop 8 := by
  rw [drop8_frame, frame_eq_parts]
  generalize crc16 (framePrefix p) = X
  generalize padLen (Spec.START ++ stuff p).length = k
  rfl

/-- A whole frame, fed to a decoder that is looking for a start sequence (nothing discarded, buffer
empty; `raw` / `crc` are dead in that state): silence up to the last byte, which delivers `p`. -/
theorem frame_delivers (d : Dec) (p : List UInt8) (h1 : d.st = .look 0 0) (h4 : d.zc = 0)
    (h5 : d.buf.rdata = []) (h6 : fitsCap d.buf.cap p.length) :
    ∃ d', Delivers d (frame p) p d' ∧ Fin d' d.buf.cap (frame p).length := by
  obtain ⟨r, c, s, z, bf⟩ := d
  simp only at h1 h4 h5 h6
  subst h1 h4
  obtain ⟨d', hd, hfin⟩ := tail_delivers ⟨8, startCrc, .normal, 0, bf⟩ p rfl rfl (by simp only) rfl h5 h6
  refine ⟨d', ?_, hfin⟩
  rw [frame_eq_START_drop8]
  exact Delivers.prepend (quiet_START r c 0 bf) hd

end Dec

/-- The rest of a frame (everything after the start sequence) from the post-START state:
one `Ok(None)` per byte, then the payload at the last byte; the decoder is then `Done`.
Independent of how the decoder got into that state. -/
theorem frame_tail_decodes (d : Dec) (p : List UInt8) (h1 : d.st = .normal) (h2 : d.raw = 8)
    (h3 : d.crc = startCrc) (h4 : d.zc = 0) (h5 : d.buf.rdata = [])
    (h6 : fitsCap d.buf.cap p.length) :
    (Dec.pushAll d ((frame p).drop 8)).2 =
        List.replicate ((frame p).length - 9) Out.none ++ [Out.msg p] ∧
      (Dec.pushAll d ((frame p).drop 8)).1.st = .done ∧
      (Dec.pushAll d ((frame p).drop 8)).1.buf.data = p ∧
      (Dec.pushAll d ((frame p).drop 8)).1.buf.cap = d.buf.cap ∧
      (Dec.pushAll d ((frame p).drop 8)).1.zc = 0 := by
  obtain ⟨d', hd, hfin⟩ := Dec.tail_delivers d p h1 h2 h3 h4 h5 h6
  have hst := hd
  obtain ⟨_, _, _, _, _, _, hdone, hdata⟩ := hst
  rw [hd.pushAll]
  refine ⟨?_, hdone, hdata, hfin.cap, hfin.zc⟩
  simp only [List.length_drop]
  have : (frame p).length - 8 - 1 = (frame p).length - 9 := by omega
  rw [this]

/-- the start sequence from `look 0 0`: eight silent steps into the post-START state -/
theorem start_decodes (d : Dec) (h1 : d.st = .look 0 0) :
    Dec.pushAll d START =
      ({ d with st := .normal, raw := 8, crc := startCrc }, List.replicate 8 Out.none) := by
  obtain ⟨r, c, s, z, bf⟩ := d
  simp only at h1
  subst h1
  exact Dec.pushAll_quiet (Dec.quiet_START r c z bf)

end Sml

import Sml.Props.C04
/-
  Property C04, streaming parser: how much of what the streaming parser has EMITTED is verified?

  The streaming parser (src/parser/streaming.rs) emits the events of a message - `MessageStart`,
  the `ListEntry`s, `GetListResponseEnd` - BEFORE it has read that message's checksum and end
  marker; the checksum is only compared when the NEXT item is requested.  So, unlike the
  allocating parser (`C04.sound`: data is returned only for inputs in the grammar), a consumer
  of the event stream sees data of a message that may later turn out to be corrupt.

  The exact bound is a theorem here:

  * `streaming_unverified_bound`: when the iteration ends with an error item, the events seen
    before it reassemble (as a prefix, `Spec.reassemblePrefix`) to `ms ++ extra`, where `ms` are
    fully verified messages - `pre`, a prefix of the input, is an encoding of exactly the file
    `ms` in the grammar (arities, field types, CRC-16 matching, end marker) - and `extra` is AT
    MOST ONE further message, whose events were all emitted but which is NOT verified.
    `streaming_unverified_bound_at` adds: the input splits as `pre ++ rest`, and the error `e` is
    the error of parsing the ONE message that starts at `rest`.  (Informally: the events of that
    message were either all emitted before its trailer failed - then it is `extra` - or the error
    came earlier and only some of them were emitted - then `reassemblePrefix` drops them and
    `extra = []`.)
  * `streaming_verified_when_complete`: when the iteration ends WITHOUT an error item, everything
    that was emitted is verified: the events reassemble to messages `ms` and the whole input is an
    encoding of the file `ms` (this is `C04.sound_streaming`).

  CONSEQUENCE FOR USERS of the streaming parser: events are PROVISIONAL.  A consumer must treat
  the events it has received as unverified until the iteration has ended (`None`) without
  yielding an error item; only then does `streaming_verified_when_complete` apply.  If it ends
  with an error item, all messages but the last one seen are verified
  (`streaming_unverified_bound`), the last one need not be: its checksum and end marker are read only
  when the item AFTER its last event is requested.

  All statements hold for every input (no length bound).
-/
namespace Sml.C04
open Sml Sml.Spec

/-- the messages the allocating parser has completed are the messages of a file encoded by a
    prefix `pre` of the input; if the parser fails, it fails on the message that starts right
    after `pre` -/
theorem completed_enc (fuel : Nat) : ∀ (i : Bytes), i.length ≤ fuel →
    ∃ pre rest, i = pre ++ rest ∧ EncSeq EncMessage (completedMessages fuel i) pre ∧
      ∀ e, parseMessages fuel i = .error e → parseMessage rest = .error e := by
  induction fuel with
  | zero =>
    intro i hi
    have : i = [] := List.eq_nil_of_length_eq_zero (by omega)
    subst this
    exact ⟨[], [], rfl, .nil, fun e h => by simp [parseMessages] at h⟩
  | succ fuel ih =>
    intro i hi
    cases i with
    | nil => exact ⟨[], [], rfl, .nil, fun e h => by simp [parseMessages] at h⟩
    | cons b i' =>
      rw [completedMessages_succ, Sml.parseMessages_succ]
      cases hp : parseMessage (b :: i') with
      | error e0 =>
        refine ⟨[], b :: i', rfl, .nil, fun e h => ?_⟩
        simp only [loopStep, Except.error.injEq] at h
        rw [hp, h]
      | ok v =>
        obtain ⟨m, r⟩ := v
        obtain ⟨enc, he, hm⟩ := Gram.parses_message.sound _ _ _ hp
        have hlen := (adv_parseMessage.ok hp).length_le
        obtain ⟨pre', rest', hr, hseq, herr⟩ := ih r (by simp only [List.length_cons] at hi hlen; omega)
        refine ⟨enc ++ pre', rest', by rw [he, hr, List.append_assoc], .cons hm hseq, fun e h => ?_⟩
        simp only [loopStep] at h
        cases hq : parseMessages fuel r with
        | ok ms => rw [hq] at h; cases h
        | error e' =>
          rw [hq] at h
          simp only [consRes, Except.error.injEq] at h
          rw [← h]
          exact herr e' hq

/-- the events seen before an error item hold the messages verified so far plus at most one
    unverified message; the error is the error of the message that follows the verified prefix -/
theorem streaming_unverified_bound_at (x : Bytes) (evs : List ParseEvent) (e : PErr)
    (h : C09.events x = evs.map SParser.SItem.ev ++ [SParser.SItem.err e]) :
    ∃ (ms extra : List Message) (pre rest : Bytes),
      reassemblePrefix evs = some (ms ++ extra) ∧ extra.length ≤ 1 ∧
      x = pre ++ rest ∧ EncFile ⟨ms⟩ pre ∧ parseMessage rest = .error e := by
  have hp : parseFile x = .error e := (C09.agree_err x e).2 ⟨evs, h⟩
  obtain ⟨evs', extra, he', hx, hre⟩ := C09.error_prefix x e hp
  have hevs : evs = evs' := (map_ev_err_inj _ _ _ _ (h.symm.trans he')).1
  subst hevs
  obtain ⟨pre, rest, hsplit, hseq, herr⟩ := completed_enc x.length x (Nat.le_refl _)
  refine ⟨completedMessages x.length x, extra, pre, rest, hre, hx, hsplit, hseq, herr e ?_⟩
  unfold parseFile at hp
  cases hq : parseMessages x.length x with
  | ok ms => rw [hq] at hp; cases hp
  | error e' => rw [hq] at hp; simp only [Except.error.injEq] at hp; rw [hp]

/-- EXACT BOUND on unverified data: all but possibly the last message seen in the events before
    an error item are fully verified messages of a prefix of the input -/
theorem streaming_unverified_bound (x : Bytes) (evs : List ParseEvent) (e : PErr)
    (h : C09.events x = evs.map SParser.SItem.ev ++ [SParser.SItem.err e]) :
    ∃ (ms extra : List Message) (pre : Bytes),
      reassemblePrefix evs = some (ms ++ extra) ∧ extra.length ≤ 1 ∧ pre <+: x ∧
      EncFile ⟨ms⟩ pre := by
  obtain ⟨ms, extra, pre, rest, h1, h2, h3, h4, _⟩ := streaming_unverified_bound_at x evs e h
  exact ⟨ms, extra, pre, h1, h2, ⟨rest, h3.symm⟩, h4⟩

/-- if the iteration ends without an error item, everything that was emitted is verified: the
    events reassemble (completely, and also as a prefix) to messages `ms`, and the whole input is
    an encoding of the file `ms` (`C04.sound_streaming`) -/
theorem streaming_verified_when_complete (x : Bytes) (evs : List ParseEvent)
    (h : C09.events x = evs.map SParser.SItem.ev) :
    ∃ ms : List Message, reassemble evs = some ms ∧ reassemblePrefix evs = some ms ∧
      EncFile ⟨ms⟩ x := by
  rw [C09.events_eq_run] at h
  rcases file_cases x with ⟨F, evs', _, hr, hre⟩ | ⟨e, evs', _, _, hr, _, _⟩
  · have hevs : evs = evs' := map_ev_inj _ _ (h.symm.trans hr)
    subst hevs
    refine ⟨F.messages, hre true, hre false, ?_⟩
    exact sound_streaming x evs F.messages (by rw [C09.events_eq_run]; exact h) (hre true)
  · exact absurd (h.symm.trans hr) (map_ev_ne_err _ _ _)

/-! ### non-vacuity: the bound `extra.length ≤ 1` is attained

  input = a valid close response followed by a list response with a corrupted checksum: the
  iteration yields 5 events and then `Err(CrcMismatch)`; the events reassemble to TWO messages,
  only the first of which is verified -/

def badInput : Bytes := C09.goodClose ++ C09.badCrcList

/-- the events before the error item -/
def badEvents : List ParseEvent :=
  (C09.events badInput).filterMap fun | .ev e => some e | .err _ => Option.none

theorem badInput_events :
    C09.events badInput = badEvents.map SParser.SItem.ev ++ [SParser.SItem.err .crcMismatch] := by
  decide +kernel

example : badEvents.length = 5 := by decide +kernel
example : (reassemblePrefix badEvents).map List.length = some 2 := by decide +kernel
example : (completedMessages badInput.length badInput).length = 1 := by decide +kernel
-- the theorem applied: two messages seen, `ms` = the one verified message, `extra` = the other
example : ∃ (ms extra : List Message) (pre : Bytes),
    reassemblePrefix badEvents = some (ms ++ extra) ∧ extra.length ≤ 1 ∧ pre <+: badInput ∧
    EncFile ⟨ms⟩ pre := streaming_unverified_bound _ _ _ badInput_events
-- an error-free run: everything emitted is verified
def goodEvents : List ParseEvent :=
  (C09.events (C09.goodList ++ C09.goodClose)).filterMap fun | .ev e => some e | .err _ => Option.none
example : ∃ ms, reassemble goodEvents = some ms ∧ reassemblePrefix goodEvents = some ms ∧
    EncFile ⟨ms⟩ (C09.goodList ++ C09.goodClose) :=
  streaming_verified_when_complete _ _ (by decide +kernel)

end Sml.C04

import Sml.Props.C08
/-
  Property C08, second sentence, in the generality of the first (review item M4).

  `C08.cut_then_frame` is stated for a NEW decoder, without noise in front of the cut-off
  transmission, and asks that the whole payload `m1` of the cut-off transmission fits the buffer.
  Here:

  * any idle history (`C08.Idle`: new, or the last answer was a delivered transmission, an
    `InvalidMessage` / `InvalidEsc` / `OutOfMemory` error, the answer of `finalize` / `reset`, or
    a replacement of the decoder by `new` / `from_buf`),
  * start-free noise `g` in front of the cut-off transmission,
  * the capacity hypothesis only for the part that was actually received: `NoOom cap a`, "feeding the
    cut-off part `a` to a new decoder with that buffer does not report out-of-memory"
    (`noOom_of_fits`: implied by `fitsCap cap |m1|`, in particular always true for `Vec`).

  `noise_cut` describes the decoder after noise and the cut-off part alone (used for C10: a stream
  that ends in an unfinished transmission).
-/
namespace Sml.C08

open Spec (frame)
open C07 (fitsCap)

/-- feeding `a` to a new decoder with buffer capacity `cap` never answers `Err(OutOfMemory)` -/
def NoOom (cap : Option Nat) (a : List UInt8) : Prop :=
  Out.err DecErr.oom ∉ (Dec.pushAll (Dec.fresh cap) a).2

instance (cap : Option Nat) (a : List UInt8) : Decidable (NoOom cap a) := by
  unfold NoOom; infer_instance

/-- the hypothesis of `C08.cut_then_frame` (the whole payload fits) implies `NoOom` for every
prefix of the frame; for `cap = none` (`Vec`) it always holds -/
theorem noOom_of_fits (cap : Option Nat) (m : List UInt8) (k : Nat) (h : fitsCap cap m.length) :
    NoOom cap ((frame m).take k) := by
  obtain ⟨d', hd, _⟩ := Dec.frame_delivers (Dec.fresh cap) m rfl rfl rfl h
  intro hmem
  rw [Dec.pushAll_take, hd.pushAll] at hmem
  have := List.mem_of_mem_take hmem
  simp at this

/-! ### the cut-off part alone -/

/-- A prefix `a` of a frame after which the (unbounded) decoder is in state `Normal`, fed to a new
decoder of capacity `cap` that does not run out of memory on it: no answer but `Ok(None)`; the
decoder is in state `Normal`, `raw_msg_len = |a|`; and `8 ≤ |a|` (the start sequence is
complete). -/
theorem cut_facts (cap : Option Nat) (m1 : List UInt8) (k : Nat)
    (hstate : (Dec.pushAll (Dec.fresh none) ((frame m1).take k)).1.st = .normal)
    (hroom : NoOom cap ((frame m1).take k)) :
    (Dec.pushAll (Dec.fresh cap) ((frame m1).take k)).2 =
        List.replicate ((frame m1).take k).length Out.none ∧
      (Dec.pushAll (Dec.fresh cap) ((frame m1).take k)).1.st = .normal ∧
      (Dec.pushAll (Dec.fresh cap) ((frame m1).take k)).1.raw = ((frame m1).take k).length ∧
      (Dec.pushAll (Dec.fresh cap) ((frame m1).take k)).1.buf.cap = cap ∧
      8 ≤ ((frame m1).take k).length ∧ 8 ≤ k := by
  obtain ⟨u1, u2, _⟩ := Resync.cut_frame none m1 k trivial hstate
  have e : Dec.fresh cap = (Dec.fresh none).withCapR cap := rfl
  have hinv := Dec.pushAll_inv ((frame m1).take k) (Dec.inv_fresh none)
  have h8 : 8 ≤ ((frame m1).take k).length := by
    have := hinv.normal hstate
    omega
  have hk8 : 8 ≤ k := by
    rw [List.length_take] at h8; omega
  rcases Dec.pushAll_rel cap ((frame m1).take k) (Dec.fresh none) rfl (Dec.fitsCap_zero cap) with
    ⟨g1, _⟩ | ⟨i, hi, g1, _⟩
  · rw [e, g1]
    exact ⟨u1, hstate, u2, rfl, h8, hk8⟩
  · exfalso
    apply hroom
    have hmem : Out.err DecErr.oom ∈
        (Dec.pushAll (Dec.fresh cap) (((frame m1).take k).take (i + 1))).2 := by
      rw [e, g1]; simp
    rw [Dec.pushAll_take] at hmem
    exact List.mem_of_mem_take hmem

/-- a frame prefix of length `≥ 8` is the start sequence and a rest -/
theorem take_frame_split (m : List UInt8) (k : Nat) (hk : 8 ≤ k) :
    (frame m).take k = START ++ ((frame m).drop 8).take (k - 8) := by
  conv => lhs; rw [Dec.frame_eq_START_drop8]
  rw [List.take_append, List.take_of_length_le (by simp [START]; omega)]
  rfl

/-- the post-START state of a decoder `d` -/
abbrev afterStart (d : Dec) : Dec := { d with raw := 8, crc := startCrc, st := .normal }

/-- the rest of the cut-off part, from the post-START state -/
theorem cut_tail_facts (cap : Option Nat) (m1 : List UInt8) (k : Nat)
    (hstate : (Dec.pushAll (Dec.fresh none) ((frame m1).take k)).1.st = .normal)
    (hroom : NoOom cap ((frame m1).take k)) :
    let t := ((frame m1).drop 8).take (k - 8)
    t.length + 8 = ((frame m1).take k).length ∧
      (Dec.pushAll (afterStart (Dec.fresh cap)) t).2 = List.replicate t.length Out.none ∧
      (Dec.pushAll (afterStart (Dec.fresh cap)) t).1.st = .normal ∧
      (Dec.pushAll (afterStart (Dec.fresh cap)) t).1.raw = ((frame m1).take k).length ∧
      (Dec.pushAll (afterStart (Dec.fresh cap)) t).1.buf.cap = cap := by
  intro t
  obtain ⟨c1, c2, c3, c4, c5, c6⟩ := cut_facts cap m1 k hstate hroom
  have hsplit := take_frame_split m1 k c6
  have hs := start_decodes (Dec.fresh cap) rfl
  have hlen : t.length + 8 = ((frame m1).take k).length := by
    rw [hsplit, List.length_append]
    show t.length + 8 = 8 + t.length
    omega
  have hrun : Dec.pushAll (Dec.fresh cap) ((frame m1).take k) =
      ((Dec.pushAll (afterStart (Dec.fresh cap)) t).1,
        List.replicate 8 Out.none ++ (Dec.pushAll (afterStart (Dec.fresh cap)) t).2) := by
    rw [hsplit, Dec.pushAll_append, hs]
  rw [hrun] at c1 c2 c3 c4
  refine ⟨hlen, ?_, c2, c3, c4⟩
  simp only at c1
  rw [← hlen, Nat.add_comm, ← List.replicate_append_replicate] at c1
  exact List.append_cancel_left c1

/-- Start-free noise `g`, then the cut-off part `a` of a transmission, from any idle decoder:
silence, the noise report at the last byte of the start sequence (if `g ≠ []`), silence.
From a new decoder the state afterwards is `Normal` with `raw_msg_len = |a|` (so `finalize` would
report `DiscardedBytes(|a|)` and `reset` would return `|a|`). -/
theorem noise_cut (cap : Option Nat) (g m1 : List UInt8) (k : Nat) (hg : StartFree g)
    (hstate : (Dec.pushAll (Dec.fresh none) ((frame m1).take k)).1.st = .normal)
    (hroom : NoOom cap ((frame m1).take k)) :
    (Dec.pushAll (Dec.fresh cap) (g ++ (frame m1).take k)).2 =
        List.replicate (g.length + 7) Out.none ++
          [if g = [] then Out.none else Out.err (.discarded g.length)] ++
          List.replicate (((frame m1).take k).length - 8) Out.none ∧
      (Dec.pushAll (Dec.fresh cap) (g ++ (frame m1).take k)).1.st = .normal ∧
      (Dec.pushAll (Dec.fresh cap) (g ++ (frame m1).take k)).1.raw = ((frame m1).take k).length ∧
      (Dec.pushAll (Dec.fresh cap) (g ++ (frame m1).take k)).1.buf.cap = cap := by
  obtain ⟨_, _, _, _, _, c6⟩ := cut_facts cap m1 k hstate hroom
  obtain ⟨t1, t2, t3, t4, t5⟩ := cut_tail_facts cap m1 k hstate hroom
  have hns := Resync.noise_start (Dec.fresh cap) rfl g hg
  have hsplit : g ++ (frame m1).take k = (g ++ START) ++ ((frame m1).drop 8).take (k - 8) := by
    rw [take_frame_split m1 k c6]; simp
  rw [hsplit, Dec.pushAll_append, hns]
  simp only
  refine ⟨?_, t3, t4, t5⟩
  rw [t2]
  congr 2
  omega

/-- `resync_after` without the assumption that `raw_msg_len` equals the length of the silent part:
input `a` after which the decoder is silently in state `Normal`, then a frame -/
theorem resync_after_raw (d : Dec) (a m : List UInt8)
    (hout : (Dec.pushAll d a).2 = List.replicate a.length Out.none)
    (hst : (Dec.pushAll d a).1.st = .normal)
    (hm : fitsCap (Dec.pushAll d a).1.buf.cap m.length) :
    (Dec.pushAll d (a ++ frame m)).2 =
        List.replicate (a.length + 7) Out.none ++ [Out.err (.discarded (Dec.pushAll d a).1.raw)] ++
          List.replicate ((frame m).length - 9) Out.none ++ [Out.msg m] ∧
      (Dec.pushAll d (a ++ frame m)).1.st = .done ∧
      (Dec.pushAll d (a ++ frame m)).1.buf.data = m := by
  obtain ⟨h1, h2, h3, _, _⟩ := frame_tail_decodes
    { (Dec.pushAll d a).1 with raw := 8, zc := 0, buf := (Dec.pushAll d a).1.buf.clear,
                               crc := startCrc, st := .normal } m rfl rfl (by simp only) rfl rfl hm
  have hsplit : a ++ frame m = a ++ (START ++ (frame m).drop 8) := by
    rw [← Dec.frame_eq_START_drop8]
  rw [hsplit, Dec.pushAll_append, Dec.pushAll_append, Resync.restart _ hst, hout]
  simp only [h1, h2, h3, and_self, and_true]
  have e : List.replicate (a.length + 7) Out.none =
      List.replicate a.length Out.none ++ List.replicate 7 Out.none :=
    List.replicate_append_replicate.symm
  rw [e]
  simp [List.replicate]

/-! ### noise, a cut-off transmission, then a frame -/

/-- New decoder.  One answer per byte: `Ok(None)` everywhere, except
`Err(DiscardedBytes(|g|))` at the last byte of the first start sequence (if there was noise),
`Err(DiscardedBytes(|a|))` at the last byte of the second start sequence (`a` = the cut-off part),
and `Ok(Some(m2))` at the last byte. -/
theorem noise_cut_then_frame (cap : Option Nat) (g m1 m2 : List UInt8) (k : Nat) (hg : StartFree g)
    (hstate : (Dec.pushAll (Dec.fresh none) ((frame m1).take k)).1.st = .normal)
    (hroom : NoOom cap ((frame m1).take k)) (hm : fitsCap cap m2.length) :
    (Dec.pushAll (Dec.fresh cap) (g ++ (frame m1).take k ++ frame m2)).2 =
        List.replicate (g.length + 7) Out.none ++
          [if g = [] then Out.none else Out.err (.discarded g.length)] ++
          List.replicate (((frame m1).take k).length - 8 + 7) Out.none ++
          [Out.err (.discarded ((frame m1).take k).length)] ++
          List.replicate ((frame m2).length - 9) Out.none ++ [Out.msg m2] ∧
      (Dec.pushAll (Dec.fresh cap) (g ++ (frame m1).take k ++ frame m2)).1.st = .done ∧
      (Dec.pushAll (Dec.fresh cap) (g ++ (frame m1).take k ++ frame m2)).1.buf.data = m2 := by
  obtain ⟨_, _, _, _, _, c6⟩ := cut_facts cap m1 k hstate hroom
  obtain ⟨t1, t2, t3, t4, t5⟩ := cut_tail_facts cap m1 k hstate hroom
  obtain ⟨r1, r2, r3⟩ := resync_after_raw (afterStart (Dec.fresh cap))
    (((frame m1).drop 8).take (k - 8)) m2 t2 t3 (by rw [t5]; exact hm)
  have hns := Resync.noise_start (Dec.fresh cap) rfl g hg
  have hsplit : g ++ (frame m1).take k ++ frame m2 =
      (g ++ START) ++ (((frame m1).drop 8).take (k - 8) ++ frame m2) := by
    rw [take_frame_split m1 k c6]; simp
  rw [hsplit, Dec.pushAll_append, hns]
  simp only
  refine ⟨?_, r2, r3⟩
  rw [r1, t4]
  have : (((frame m1).drop 8).take (k - 8)).length = ((frame m1).take k).length - 8 := by omega
  rw [this]
  simp only [List.append_assoc]

/-- The same from a decoder with any idle history `ops` of `push_byte` / `finalize` / `reset` /
`new` / `from_buf` calls (review item M4). -/
theorem cut_then_frame_idle (cap : Option Nat) (ops : List Op) (h : Idle cap ops)
    (g m1 m2 : List UInt8) (k : Nat) (hg : StartFree g)
    (hstate : (Dec.pushAll (Dec.fresh none) ((frame m1).take k)).1.st = .normal)
    (hroom : NoOom cap ((frame m1).take k)) (hm : fitsCap cap m2.length) :
    (Dec.pushAll (Dec.run (Dec.fresh cap) ops).1 (g ++ (frame m1).take k ++ frame m2)).2 =
      List.replicate (g.length + 7) Out.none ++
        [if g = [] then Out.none else Out.err (.discarded g.length)] ++
        List.replicate (((frame m1).take k).length - 8 + 7) Out.none ++
        [Out.err (.discarded ((frame m1).take k).length)] ++
        List.replicate ((frame m2).length - 9) Out.none ++ [Out.msg m2] := by
  rw [Resync.pushAll_after_idle cap ops h]
  exact (noise_cut_then_frame cap g m1 m2 k hg hstate hroom hm).1

/-- `C08.cut_then_frame` is the special case `ops = []`, `g = []`, whole payload fits -/
theorem cut_then_frame_of_idle (cap : Option Nat) (m1 m2 : List UInt8) (k : Nat)
    (hstate : (Dec.pushAll (Dec.fresh none) ((frame m1).take k)).1.st = .normal)
    (hroom : fitsCap cap m1.length) (hm : fitsCap cap m2.length) :
    (Dec.pushAll (Dec.fresh cap) ((frame m1).take k ++ frame m2)).2 =
      List.replicate (((frame m1).take k).length + 7) Out.none ++
        [Out.err (.discarded ((frame m1).take k).length)] ++
        List.replicate ((frame m2).length - 9) Out.none ++ [Out.msg m2] := by
  have hno := noOom_of_fits cap m1 k hroom
  obtain ⟨_, _, _, _, c5, _⟩ := cut_facts cap m1 k hstate hno
  have := cut_then_frame_idle cap [] (Or.inl rfl) [] m1 m2 k (by decide) hstate hno hm
  have e : List.replicate (([] : List UInt8).length + 7) Out.none ++
      [if ([] : List UInt8) = [] then Out.none else Out.err (.discarded ([] : List UInt8).length)] ++
      List.replicate (((frame m1).take k).length - 8 + 7) Out.none =
      List.replicate (((frame m1).take k).length + 7) Out.none := by
    rw [if_pos rfl, show [Out.none] = List.replicate 1 Out.none from rfl,
      List.replicate_append_replicate, List.replicate_append_replicate]
    congr 1
    simp only [List.length_nil]
    omega
  rw [e] at this
  exact this

/-! ### non-vacuity (kernel evaluation) -/

/-- a payload of 8 bytes cut after 2 of them in an `ArrayBuf<5>`: `fitsCap (some 5) 8` is false,
`NoOom` holds -/
example : NoOom (some 5) ((frame [1, 2, 3, 4, 5, 6, 7, 8]).take 10) := by decide +kernel
example : ¬ fitsCap (some 5) ([1, 2, 3, 4, 5, 6, 7, 8] : List UInt8).length := by decide
example : (Dec.pushAll (Dec.fresh none) ((frame [1, 2, 3, 4, 5, 6, 7, 8]).take 10)).1.st = .normal := by
  decide +kernel

/-- idle history (a delivered frame), noise `00 1b 1b`, the cut-off part, a frame -/
example : (Dec.pushAll (Dec.run (Dec.fresh (some 5)) ((frame [7]).map Op.push)).1
      ([0x00, 0x1b, 0x1b] ++ (frame [1, 2, 3, 4, 5, 6, 7, 8]).take 10 ++ frame [9])).2 =
    List.replicate 10 Out.none ++ [Out.err (.discarded 3)] ++ List.replicate 9 Out.none ++
      [Out.err (.discarded 10)] ++ List.replicate 11 Out.none ++ [Out.msg [9]] := by
  decide +kernel

/-- the hypothesis `NoOom` is needed: with a buffer of 1 byte the cut-off part itself runs out of
memory, the decoder is reset there and the rest of the cut-off part is noise -/
example : ¬ NoOom (some 1) ((frame [1, 2, 3, 4, 5, 6, 7, 8]).take 10) := by decide +kernel

end Sml.C08

import Sml.Props.C01
import Sml.Lemmas.E2E
import Sml.Lemmas.RdrFaults
/-
  C01, "reported when the frame's last byte is consumed", for the pull front-ends.

  `C01.roundtrip_push` states the position for the push decoder (one `Ok(None)` per byte of the
  frame except the last).  For the pull front-ends `C01.roundtrip_iter` / `roundtrip_reader_*` state
  the result lists over an input that holds exactly the frame.  Here: when MORE input follows the
  frame, `DecodeIterator::next` and `DecoderReader::{read, next, read_nb, next_nb}` return the
  payload with the source positioned exactly behind the frame's last byte (`bytes = rest` /
  `evs = rest`: nothing of `rest` has been consumed, nothing of the frame is left), and the decoder
  they hold is `after cap p`, the push decoder after the frame: state `Done`, holding the payload,
  `Dec.Equiv` (C14) to a newly constructed decoder, so that the next call continues on `rest` exactly
  like a new iterator / reader would (`iter_continues_fresh`, `reader_continues_fresh`).

  Section 3: the same with would-block (and, for `io::Read`, interrupted) events interspersed among
  the frame's bytes: after exactly one `IoErr(WouldBlock, 0)` per would-block event the payload is
  returned, again with `evs = rest`.

  The hypothesis `capFits cap p.length` is the one of Props/C01.lean; no hypothesis on `rest`.
-/
namespace Sml.C01

open Spec (frame)
open Rdr (Call)
open RF (view bytesOf)

/-- the push decoder after it has been fed the frame of `p` -/
def after (cap : Option Nat) (p : List UInt8) : Dec := (Dec.pushAll (Dec.fresh cap) (frame p)).1

/-- `Dec.Delivers` from a new decoder, with the final decoder named -/
theorem delivers_after (p : List UInt8) (cap : Option Nat) (h : capFits cap p.length) :
    Dec.Delivers (Dec.fresh cap) (frame p) p (after cap p) := by
  obtain ⟨d', hd, _⟩ := Dec.frame_delivers (Dec.fresh cap) p rfl rfl rfl h
  have : after cap p = d' := by unfold after; rw [hd.pushAll]
  rw [this]; exact hd

/-- The decoder after the frame: state `Done`, the buffer holds exactly the payload, no zeros are
withheld, the capacity is unchanged, and it is equivalent (C14: equal up to fields no later
operation can observe) to a newly constructed decoder. -/
theorem after_boundary (p : List UInt8) (cap : Option Nat) (h : capFits cap p.length) :
    (after cap p).st = .done ∧ (after cap p).buf.data = p ∧ (after cap p).zc = 0 ∧
      (after cap p).buf.cap = cap ∧ C14.Equiv (after cap p) (Dec.fresh cap) := by
  obtain ⟨h1, h2, h3⟩ := roundtrip_state p cap h
  have hcap : (after cap p).buf.cap = cap := Dec.pushAll_cap _ (Dec.inv_fresh cap)
  exact ⟨h1, h2, h3, hcap, E2E.equiv_fresh_of_done h1 hcap⟩

/-! ### 1. `DecodeIterator` -/

theorem pull_delivers_append {d d' : Dec} {bytes p : List UInt8} (h : Dec.Delivers d bytes p d')
    (rest : List UInt8) :
    DecIter.pull d (bytes ++ rest) = ({ dec := d', bytes := rest, done := false }, some (Item.ok p)) := by
  obtain ⟨xs, y, d1, e, hq, hp, hst, hdata⟩ := h
  subst e
  rw [List.append_assoc, DecIter.pull_quiet hq]
  simp [DecIter.pull, hp, Dec.borrowBuf, Dec.isDone, hst, hdata]

/-- `DecodeIterator::next` on `frame p ++ rest`: the payload, and the iterator is positioned exactly
behind the frame (all of `rest` is still unread, `done` is not set). -/
theorem iter_stops_at_frame_end (p rest : List UInt8) (cap : Option Nat)
    (h : capFits cap p.length) :
    (DecIter.new cap (frame p ++ rest)).next =
      ({ dec := after cap p, bytes := rest, done := false }, some (Item.ok p)) := by
  rw [DecIter.next_of_not_doneR rfl]
  exact pull_delivers_append (delivers_after p cap h) rest

/-! ### 2. `DecoderReader` / `SmlReader` over a fault-free stretch -/

theorem readLoop_delivers_append (kind : SrcKind) {d d' : Dec} {bytes p : List UInt8}
    (h : Dec.Delivers d bytes p d') (rest : List Ev) :
    Rdr.readLoop kind d (bytes.map Ev.byte ++ rest) =
      ({ kind := kind, dec := d', evs := rest }, RItem.ok p) := by
  obtain ⟨xs, y, d1, e, hq, hp, hst, hdata⟩ := h
  subst e
  rw [List.map_append, List.append_assoc, Rdr.readLoop_quiet kind hq]
  simp [Rdr.readLoop, hp, Dec.borrowBuf, Dec.isDone, hst, hdata]

/-- `DecoderReader::read` over any source kind (slice / iterator, `io::Read`, embedded-hal), the
frame's bytes followed by arbitrary further events `rest` (bytes and faults): the payload, and the
source is positioned exactly behind the frame's last byte. -/
theorem reader_stops_at_frame_end (kind : SrcKind) (p : List UInt8) (rest : List Ev)
    (cap : Option Nat) (h : capFits cap p.length) :
    (Rdr.new kind cap ((frame p).map Ev.byte ++ rest)).read =
      ({ kind := kind, dec := after cap p, evs := rest }, RItem.ok p) :=
  readLoop_delivers_append kind (delivers_after p cap h) rest

/-- all four entry points (`read`, `next`, `read_nb`, `next_nb`) -/
theorem reader_call_stops_at_frame_end (c : Call) (kind : SrcKind) (p : List UInt8)
    (rest : List Ev) (cap : Option Nat) (h : capFits cap p.length) :
    (Rdr.new kind cap ((frame p).map Ev.byte ++ rest)).call c =
      ({ kind := kind, dec := after cap p, evs := rest }, RItem.ok p) := by
  rw [RF.call_eq_read, reader_stops_at_frame_end kind p rest cap h]
  cases c <;> rfl

theorem reader_next_stops_at_frame_end (kind : SrcKind) (p : List UInt8) (rest : List Ev)
    (cap : Option Nat) (h : capFits cap p.length) :
    (Rdr.new kind cap ((frame p).map Ev.byte ++ rest)).next =
      ({ kind := kind, dec := after cap p, evs := rest }, RItem.ok p) :=
  reader_call_stops_at_frame_end .next kind p rest cap h

theorem reader_readNb_stops_at_frame_end (kind : SrcKind) (p : List UInt8) (rest : List Ev)
    (cap : Option Nat) (h : capFits cap p.length) :
    (Rdr.new kind cap ((frame p).map Ev.byte ++ rest)).readNb =
      ({ kind := kind, dec := after cap p, evs := rest }, RItem.ok p) :=
  reader_call_stops_at_frame_end .readNb kind p rest cap h

theorem reader_nextNb_stops_at_frame_end (kind : SrcKind) (p : List UInt8) (rest : List Ev)
    (cap : Option Nat) (h : capFits cap p.length) :
    (Rdr.new kind cap ((frame p).map Ev.byte ++ rest)).nextNb =
      ({ kind := kind, dec := after cap p, evs := rest }, RItem.ok p) :=
  reader_call_stops_at_frame_end .nextNb kind p rest cap h

/-! ### 3. would-block / interrupted events among the frame's bytes -/

/-- events that `read` passes over without touching the decoder, besides bytes: a would-block (it
ends the call with `IoErr(WouldBlock, 0)`, decoder untouched) on every source kind, and
`Interrupted` on an `io::Read` source (`read_exact` retries).  On the other source kinds
`Interrupted` is an error that resets the decoder, so it is not allowed here. -/
def transparent (kind : SrcKind) : Ev → Bool
  | .byte _ => true
  | .wouldBlock => true
  | .interrupted => kind = .io
  | _ => false

/-- Events `pre` whose bytes the decoder consumes silently, interspersed with transparent faults:
`n + 1` calls of the same entry point, `n` the number of would-block events in `pre`, surface one
would-block each and then continue with what follows `pre`, the decoder being in the state the bytes
of `pre` lead to. -/
theorem calls_through_faults (kind : SrcKind) (c : Call) : ∀ (pre : List Ev) (d d1 : Dec),
    d.quiet (bytesOf pre) = some d1 → (∀ e ∈ pre, transparent kind e = true) → ∀ tail : List Ev,
    ({ kind := kind, dec := d, evs := pre ++ tail } : Rdr).calls
        (c :: List.replicate (pre.count .wouldBlock) c) =
      ((Rdr.read { kind := kind, dec := d1, evs := tail }).1,
        List.replicate (pre.count .wouldBlock) (view c (.ioErr .wouldBlock 0)) ++
          [view c (Rdr.read { kind := kind, dec := d1, evs := tail }).2]) := by
  intro pre
  induction pre with
  | nil =>
    intro d d1 hq _ tail
    simp only [bytesOf, Dec.quiet, Option.some.injEq] at hq
    subst hq
    simp only [List.count_nil, List.replicate_zero, List.nil_append]
    rw [Rdr.calls_cons, RF.call_eq_read]
    rfl
  | cons e pre ih =>
    intro d d1 hq ht tail
    have ht' : ∀ e ∈ pre, transparent kind e = true := fun x hx => ht x (List.mem_cons_of_mem _ hx)
    cases e with
    | byte b =>
      simp only [bytesOf, Dec.quiet] at hq
      split at hq
      · next d2 heq =>
        have hr : Rdr.read { kind := kind, dec := d, evs := .byte b :: (pre ++ tail) } =
            Rdr.read { kind := kind, dec := d2, evs := pre ++ tail } := by
          rw [Rdr.read_byte, heq]
        rw [List.count_cons_of_ne (by simp), List.cons_append, RF.calls_congr_read hr]
        exact ih d2 d1 hq ht' tail
      · cases hq
    | wouldBlock =>
      have hq' : d.quiet (bytesOf pre) = some d1 := hq
      rw [List.count_cons_self, List.replicate_succ, List.replicate_succ, List.cons_append,
        Rdr.calls_cons, RF.call_eq_read, RF.read_wouldBlock]
      simp only
      rw [ih d d1 hq' ht' tail]
      rfl
    | interrupted =>
      have hk : kind = .io := by simpa [transparent] using ht .interrupted List.mem_cons_self
      subst hk
      have hq' : d.quiet (bytesOf pre) = some d1 := hq
      rw [List.count_cons_of_ne (by simp), List.cons_append,
        RF.calls_congr_read (RF.read_interrupted d (pre ++ tail))]
      exact ih d d1 hq' ht' tail
    | other => exact absurd (ht .other List.mem_cons_self) (by simp [transparent])
    | eof => exact absurd (ht .eof List.mem_cons_self) (by simp [transparent])

/-- The frame's bytes arrive interspersed with would-block events (any source kind) and, on an
`io::Read` source, interrupts: `pre` holds all bytes of the frame but the last, `y`, in order, and
any number of such faults anywhere (also directly in front of `y`); arbitrary events `rest` follow.
Calling the same entry point `c` again after every would-block: each would-block event is surfaced
once (`IoErr(WouldBlock, 0)` for `read` / `next`, `nb::Error::WouldBlock` for `read_nb` /
`next_nb`), the call after the last one returns the payload, and the source is then positioned
exactly behind the frame's last byte. -/
theorem reader_stops_at_frame_end_faults (c : Call) (kind : SrcKind) (p : List UInt8)
    (pre : List Ev) (y : UInt8) (rest : List Ev) (cap : Option Nat) (h : capFits cap p.length)
    (hb : bytesOf pre ++ [y] = frame p) (hpre : ∀ e ∈ pre, transparent kind e = true) :
    (Rdr.new kind cap (pre ++ Ev.byte y :: rest)).calls
        (c :: List.replicate (pre.count .wouldBlock) c) =
      ({ kind := kind, dec := after cap p, evs := rest },
        List.replicate (pre.count .wouldBlock) (view c (.ioErr .wouldBlock 0)) ++ [RItem.ok p]) := by
  obtain ⟨xs, y', d1, e, hq, hp, hst, hdata⟩ := delivers_after p cap h
  rw [← hb] at e
  obtain ⟨e1, e2⟩ := List.append_inj' e rfl
  cases e2
  subst e1
  have hlast : Rdr.read { kind := kind, dec := d1, evs := Ev.byte y :: rest } =
      ({ kind := kind, dec := after cap p, evs := rest }, RItem.ok p) := by
    rw [Rdr.read_byte, hp]
    simp [Dec.borrowBuf, Dec.isDone, hst, hdata]
  rw [E2E.new_eq, calls_through_faults kind c pre (Dec.fresh cap) d1 hq hpre, hlast]
  cases c <;> rfl

/-- `read`: one `IoErr(WouldBlock, 0)` per would-block event, then the payload -/
theorem reads_stop_at_frame_end_faults (kind : SrcKind) (p : List UInt8)
    (pre : List Ev) (y : UInt8) (rest : List Ev) (cap : Option Nat) (h : capFits cap p.length)
    (hb : bytesOf pre ++ [y] = frame p) (hpre : ∀ e ∈ pre, transparent kind e = true) :
    (Rdr.new kind cap (pre ++ Ev.byte y :: rest)).calls
        (List.replicate (pre.count .wouldBlock + 1) .read) =
      ({ kind := kind, dec := after cap p, evs := rest },
        List.replicate (pre.count .wouldBlock) (RItem.ioErr .wouldBlock 0) ++ [RItem.ok p]) :=
  reader_stops_at_frame_end_faults .read kind p pre y rest cap h hb hpre

/-- `next_nb` (and likewise `read_nb`): one `nb::Error::WouldBlock` per would-block event, then
the payload -/
theorem nextNbs_stop_at_frame_end_faults (kind : SrcKind) (p : List UInt8)
    (pre : List Ev) (y : UInt8) (rest : List Ev) (cap : Option Nat) (h : capFits cap p.length)
    (hb : bytesOf pre ++ [y] = frame p) (hpre : ∀ e ∈ pre, transparent kind e = true) :
    (Rdr.new kind cap (pre ++ Ev.byte y :: rest)).calls
        (List.replicate (pre.count .wouldBlock + 1) .nextNb) =
      ({ kind := kind, dec := after cap p, evs := rest },
        List.replicate (pre.count .wouldBlock) RItem.nbWouldBlock ++ [RItem.ok p]) :=
  reader_stops_at_frame_end_faults .nextNb kind p pre y rest cap h hb hpre

/-! ### 4. afterwards the front-end continues like a new one -/

theorem pull_cons_cases (d : Dec) (b : UInt8) (bs : List UInt8) :
    ((d.push b).2 = .none ∧ DecIter.pull d (b :: bs) = DecIter.pull (d.push b).1 bs) ∨
    (∃ x, (d.push b).2.toItem? = some x ∧
      DecIter.pull d (b :: bs) = ({ dec := (d.push b).1, bytes := bs, done := false }, some x)) := by
  rw [Dec.push_eq]
  rcases hp : d.pushByte b with ⟨d', r⟩
  cases r with
  | more => exact Or.inl ⟨rfl, by simp only [DecIter.pull, hp]⟩
  | ready =>
    have hd := Dec.pushByte_ready hp
    exact Or.inr ⟨.ok d'.buf.data, rfl, by simp [DecIter.pull, hp, Dec.borrowBuf, Dec.isDone, hd]⟩
  | err e => exact Or.inr ⟨.err e, rfl, by simp only [DecIter.pull, hp]⟩
  | panic s => exact Or.inr ⟨.panic s, rfl, by simp only [DecIter.pull, hp]⟩

/-- iterators that agree up to dead decoder fields -/
def ISim (a b : DecIter) : Prop := a.bytes = b.bytes ∧ a.done = b.done ∧ C14.Equiv a.dec b.dec

theorem pull_equiv (bs : List UInt8) : ∀ {d d' : Dec}, Dec.Equiv d d' →
    (DecIter.pull d bs).2 = (DecIter.pull d' bs).2 ∧
      ISim (DecIter.pull d bs).1 (DecIter.pull d' bs).1 := by
  induction bs with
  | nil =>
    intro d d' h
    have h1 := E2E.finalize_equiv h
    have h2 := (RF.reset_equiv h).2
    exact ⟨by simp only [DecIter.pull, h1], rfl, rfl, h2⟩
  | cons b bs ih =>
    intro d d' h
    have he := RF.push_equiv h b
    rcases pull_cons_cases d b bs with ⟨hn, hr⟩ | ⟨x, hx, hr⟩ <;>
      rcases pull_cons_cases d' b bs with ⟨hn', hr'⟩ | ⟨x', hx', hr'⟩
    · rw [hr, hr']; exact ih he.2
    · rw [← he.1, hn] at hx'; cases hx'
    · rw [he.1, hn'] at hx; cases hx
    · rw [he.1, hx'] at hx
      cases hx
      rw [hr, hr']
      exact ⟨rfl, rfl, rfl, he.2⟩

theorem next_sim {a b : DecIter} (h : ISim a b) : a.next.2 = b.next.2 ∧ ISim a.next.1 b.next.1 := by
  obtain ⟨da, ba, na⟩ := a
  obtain ⟨db, bb, nb⟩ := b
  obtain ⟨h1, h2, h3⟩ := h
  simp only at h1 h2 h3
  subst h1 h2
  cases na with
  | true => exact ⟨rfl, rfl, rfl, h3⟩
  | false =>
    rw [DecIter.next_of_not_done, DecIter.next_of_not_done]
    exact pull_equiv ba h3

theorem take_sim (k : Nat) : ∀ {a b : DecIter}, ISim a b → a.take k = b.take k := by
  induction k with
  | zero => intro a b _; rfl
  | succ k ih =>
    intro a b h
    obtain ⟨h1, h2⟩ := next_sim h
    rw [DecIter.take_succ, DecIter.take_succ, h1, ih h2]

/-- The iterator left by `iter_stops_at_frame_end` answers all further `next` calls exactly like a
new iterator over `rest`. -/
theorem iter_continues_fresh (p rest : List UInt8) (cap : Option Nat) (h : capFits cap p.length)
    (k : Nat) :
    ({ dec := after cap p, bytes := rest, done := false } : DecIter).take k =
      (DecIter.new cap rest).take k :=
  take_sim k (a := { dec := after cap p, bytes := rest, done := false }) (b := DecIter.new cap rest)
    ⟨rfl, rfl, (after_boundary p cap h).2.2.2.2⟩

/-- the frame, then anything: the payload first, then what a new iterator reports for the rest -/
theorem iter_frame_then (p rest : List UInt8) (cap : Option Nat) (h : capFits cap p.length)
    (k : Nat) :
    (DecIter.new cap (frame p ++ rest)).take (k + 1) =
      some (Item.ok p) :: (DecIter.new cap rest).take k := by
  rw [DecIter.take_succ, iter_stops_at_frame_end p rest cap h]
  exact congrArg _ (iter_continues_fresh p rest cap h k)

/-- readers that agree up to dead decoder fields -/
def RSim (a b : Rdr) : Prop := a.kind = b.kind ∧ a.evs = b.evs ∧ C14.Equiv a.dec b.dec

theorem onIoErr_equiv (kind : SrcKind) (evs : List Ev) (k : IoKind) {d d' : Dec}
    (h : Dec.Equiv d d') :
    (Rdr.onIoErr kind d evs k).2 = (Rdr.onIoErr kind d' evs k).2 ∧
      RSim (Rdr.onIoErr kind d evs k).1 (Rdr.onIoErr kind d' evs k).1 := by
  have hr := RF.reset_equiv h
  cases k with
  | wouldBlock => exact ⟨rfl, rfl, rfl, h⟩
  | eof => exact ⟨by simp only [Rdr.onIoErr, hr.1], rfl, rfl, hr.2⟩
  | other => exact ⟨by simp only [Rdr.onIoErr, hr.1], rfl, rfl, hr.2⟩

theorem readLoop_equiv (kind : SrcKind) (evs : List Ev) : ∀ {d d' : Dec}, Dec.Equiv d d' →
    (Rdr.readLoop kind d evs).2 = (Rdr.readLoop kind d' evs).2 ∧
      RSim (Rdr.readLoop kind d evs).1 (Rdr.readLoop kind d' evs).1 := by
  induction evs with
  | nil =>
    intro d d' h
    cases kind with
    | eh => exact onIoErr_equiv .eh [] .wouldBlock h
    | mem => exact onIoErr_equiv .mem [] .eof h
    | io => exact onIoErr_equiv .io [] .eof h
  | cons e evs ih =>
    intro d d' h
    cases e with
    | byte b =>
      have he := RF.push_equiv h b
      have key : ∀ (x y : Rdr × RItem),
          Rdr.read { kind := kind, dec := d, evs := .byte b :: evs } = x →
          Rdr.read { kind := kind, dec := d', evs := .byte b :: evs } = y →
          (x.2 = y.2 ∧ RSim x.1 y.1) →
          (Rdr.readLoop kind d (.byte b :: evs)).2 = (Rdr.readLoop kind d' (.byte b :: evs)).2 ∧
            RSim (Rdr.readLoop kind d (.byte b :: evs)).1 (Rdr.readLoop kind d' (.byte b :: evs)).1 := by
        intro x y hx hy hxy
        have hx' : Rdr.readLoop kind d (.byte b :: evs) = x := hx
        have hy' : Rdr.readLoop kind d' (.byte b :: evs) = y := hy
        rw [hx', hy']; exact hxy
      rcases RF.read_byte_cases kind d b evs with ⟨hn, hr⟩ | ⟨x, hx, hr⟩ <;>
        rcases RF.read_byte_cases kind d' b evs with ⟨hn', hr'⟩ | ⟨x', hx', hr'⟩
      · exact key _ _ hr hr' (ih he.2)
      · rw [← he.1, hn] at hx'; cases hx'
      · rw [he.1, hn'] at hx; cases hx
      · rw [he.1, hx'] at hx
        cases hx
        exact key _ _ hr hr' ⟨rfl, rfl, rfl, he.2⟩
    | wouldBlock => exact onIoErr_equiv kind evs .wouldBlock h
    | interrupted =>
      cases kind with
      | io =>
        have e1 : ∀ d, Rdr.readLoop .io d (.interrupted :: evs) = Rdr.readLoop .io d evs :=
          fun d => RF.read_interrupted d evs
        rw [e1, e1]; exact ih h
      | mem => exact onIoErr_equiv .mem evs .other h
      | eh => exact onIoErr_equiv .eh evs .other h
    | other => exact onIoErr_equiv kind evs .other h
    | eof =>
      cases kind with
      | eh => exact onIoErr_equiv .eh evs .other h
      | mem => exact onIoErr_equiv .mem evs .eof h
      | io => exact onIoErr_equiv .io evs .eof h

theorem read_sim {a b : Rdr} (h : RSim a b) : a.read.2 = b.read.2 ∧ RSim a.read.1 b.read.1 := by
  obtain ⟨ka, da, ea⟩ := a
  obtain ⟨kb, db, eb⟩ := b
  obtain ⟨h1, h2, h3⟩ := h
  simp only at h1 h2 h3
  subst h1 h2
  exact readLoop_equiv ka ea h3

theorem calls_sim (cs : List Call) : ∀ {a b : Rdr}, RSim a b →
    (a.calls cs).2 = (b.calls cs).2 ∧ RSim (a.calls cs).1 (b.calls cs).1 := by
  induction cs with
  | nil => intro a b h; exact ⟨rfl, h⟩
  | cons c cs ih =>
    intro a b h
    obtain ⟨h1, h2⟩ := read_sim h
    rw [Rdr.calls_cons, Rdr.calls_cons, RF.call_eq_read, RF.call_eq_read]
    simp only
    rw [h1]
    exact ⟨congrArg _ (ih h2).1, (ih h2).2⟩

/-- The reader left by `reader_stops_at_frame_end` (all source kinds, all four entry points, any
faults in `rest`) answers every further sequence of calls exactly like a new reader over `rest`. -/
theorem reader_continues_fresh (kind : SrcKind) (p : List UInt8) (rest : List Ev)
    (cap : Option Nat) (h : capFits cap p.length) (cs : List Call) :
    (({ kind := kind, dec := after cap p, evs := rest } : Rdr).calls cs).2 =
      ((Rdr.new kind cap rest).calls cs).2 :=
  (calls_sim cs (a := { kind := kind, dec := after cap p, evs := rest }) (b := Rdr.new kind cap rest)
    ⟨rfl, rfl, (after_boundary p cap h).2.2.2.2⟩).1

/-- the frame, then anything, through any entry points: the payload first, then what a new reader
reports for the rest -/
theorem reader_frame_then (kind : SrcKind) (p : List UInt8) (rest : List Ev) (cap : Option Nat)
    (h : capFits cap p.length) (c : Call) (cs : List Call) :
    ((Rdr.new kind cap ((frame p).map Ev.byte ++ rest)).calls (c :: cs)).2 =
      RItem.ok p :: ((Rdr.new kind cap rest).calls cs).2 := by
  rw [Rdr.calls_cons, reader_call_stops_at_frame_end c kind p rest cap h]
  exact congrArg _ (reader_continues_fresh kind p rest cap h cs)

/-! ### 5. non-vacuity: concrete instances (kernel evaluation), `rest` non-empty, `cap = |p|` -/

example : capFits (some 4) ([0x1b, 0x02, 0x03, 0x1b] : List UInt8).length := Nat.le_refl 4

/-- the iterator: the payload ends in 0x1b (re-alignment branch), the rest begins like a start
sequence; all five bytes of the rest are still unread -/
example :
    (DecIter.new (some 4) (frame [0x1b, 0x02, 0x03, 0x1b] ++ [0x1b, 0x1b, 0x1b, 0x1b, 0x01])).next =
      ({ dec := after (some 4) [0x1b, 0x02, 0x03, 0x1b], bytes := [0x1b, 0x1b, 0x1b, 0x1b, 0x01],
         done := false }, some (Item.ok [0x1b, 0x02, 0x03, 0x1b])) := by decide +kernel

example : (after (some 4) [0x1b, 0x02, 0x03, 0x1b]).st = .done ∧
    (after (some 4) [0x1b, 0x02, 0x03, 0x1b]).buf.data = [0x1b, 0x02, 0x03, 0x1b] := by
  decide +kernel

/-- ... and the following calls: the five bytes are noise, reported at the end of the input -/
example :
    (DecIter.new (some 4) (frame [0x1b, 0x02, 0x03, 0x1b] ++ [0x1b, 0x1b, 0x1b, 0x1b, 0x01])).take 3 =
      [some (Item.ok [0x1b, 0x02, 0x03, 0x1b]), some (Item.err (.discarded 5)), none] := by
  decide +kernel

/-- the reader over an embedded-hal source; the rest begins with a would-block -/
example :
    (Rdr.new .eh (some 3) ((frame [0, 0, 0]).map Ev.byte ++ [.wouldBlock, .byte 0x1b, .other])).read =
      ({ kind := .eh, dec := after (some 3) [0, 0, 0], evs := [.wouldBlock, .byte 0x1b, .other] },
        RItem.ok [0, 0, 0]) := by decide +kernel

/-- `next_nb` over a slice: the rest is a second frame, delivered by the second call -/
example :
    ((Rdr.new .mem (some 2) ((frame [7, 8]).map Ev.byte ++ (frame [9]).map Ev.byte)).calls
      [.nextNb, .nextNb, .nextNb]).2 = [RItem.ok [7, 8], RItem.ok [9], RItem.none] := by
  decide +kernel

/-- the frame of `01 02 03` (20 bytes) without its last byte, with four would-blocks (one in front
of the first byte, one directly in front of the last byte) and an interrupt -/
def exPre : List Ev :=
  Ev.wouldBlock :: ((frame [1, 2, 3]).take 10).map Ev.byte ++ [.wouldBlock, .interrupted, .wouldBlock] ++
    (((frame [1, 2, 3]).drop 10).take 9).map Ev.byte ++ [.wouldBlock]

/-- the last byte of that frame -/
def exLast : UInt8 := ((frame [1, 2, 3]).drop 19).headD 0

/-- the hypotheses of `reader_stops_at_frame_end_faults` hold for it (`io::Read` source) -/
example : bytesOf exPre ++ [exLast] = frame [1, 2, 3] ∧ (∀ e ∈ exPre, transparent .io e = true) ∧
    exPre.count .wouldBlock = 4 ∧ Ev.interrupted ∈ exPre ∧ capFits (some 3) [1, 2, 3].length :=
  ⟨by decide +kernel, by decide +kernel, by decide +kernel, by decide +kernel, Nat.le_refl 3⟩

/-- ... and the conclusion by evaluation: four would-blocks, then the payload, `evs = rest` -/
example :
    (Rdr.new .io (some 3) (exPre ++ Ev.byte exLast :: [.byte 0x1b, .other])).calls
        (List.replicate 5 .read) =
      ({ kind := .io, dec := after (some 3) [1, 2, 3], evs := [.byte 0x1b, .other] },
        List.replicate 4 (RItem.ioErr .wouldBlock 0) ++ [RItem.ok [1, 2, 3]]) := by
  decide +kernel

/-- `transparent` is needed: on an embedded-hal source an interrupt among the frame's bytes is an
error that resets the decoder (10 bytes discarded), the payload is lost -/
example :
    (Rdr.new .eh none (((frame [1, 2, 3]).take 10).map Ev.byte ++ [.interrupted] ++
      ((frame [1, 2, 3]).drop 10).map Ev.byte)).read.2 = RItem.ioErr .other 10 := by
  decide +kernel

end Sml.C01

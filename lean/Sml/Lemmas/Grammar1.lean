import Sml.Spec.Grammar
import Sml.Lemmas.ParserBasic
/-
  Grammar ↔ parser correspondence, part 1: the notion `Parses p E` ("parser `p` recognises exactly
  the relation `E`, prefix-closed"), type-length fields, the `parseViaTlf` and `parseOpt`
  combinators, fixed-length payloads, numbers, octet strings.
-/
namespace Sml.Gram
open Sml Sml.Spec

/-! ### the type-length field depends only on its own bytes -/

theorem tlfLoop_append (x : Bytes) : ∀ (i : Bytes) (len n l m : Nat) (r : Bytes),
    tlfLoop len n i = .ok (l, m, r) → tlfLoop len n (i ++ x) = .ok (l, m, r ++ x) := by
  intro i
  induction i with
  | nil => intro len n l m r h; simp [tlfLoop] at h
  | cons b i ih =>
    intro len n l m r h
    rw [List.cons_append, tlfLoop]
    rw [tlfLoop] at h
    split at h
    · cases h
    · rename_i h1
      rw [if_neg h1]
      split at h
      · cases h
      · rename_i h2
        rw [if_neg h2]
        simp only at h ⊢
        split at h
        · cases h
        · rename_i h3
          rw [if_neg h3]
          split at h
          · rename_i h4
            rw [if_pos h4]
            exact ih _ _ _ _ _ h
          · rename_i h4
            rw [if_neg h4]
            simp only [Except.ok.injEq, Prod.mk.injEq] at h ⊢
            obtain ⟨a, b, c⟩ := h
            exact ⟨a, b, by rw [c]⟩

theorem tlfLoop_split : ∀ (i : Bytes) (len n l m : Nat) (r : Bytes),
    tlfLoop len n i = .ok (l, m, r) → ∃ e, i = e ++ r ∧ tlfLoop len n e = .ok (l, m, []) := by
  intro i
  induction i with
  | nil => intro len n l m r h; simp [tlfLoop] at h
  | cons b i ih =>
    intro len n l m r h
    rw [tlfLoop] at h
    split at h
    · cases h
    · rename_i h1
      split at h
      · cases h
      · rename_i h2
        simp only at h
        split at h
        · cases h
        · rename_i h3
          split at h
          · rename_i h4
            obtain ⟨e, he, hl⟩ := ih _ _ _ _ _ h
            refine ⟨b :: e, by rw [he]; rfl, ?_⟩
            rw [tlfLoop, if_neg h1, if_neg h2]
            simp only
            rw [if_neg h3, if_pos h4]
            exact hl
          · rename_i h4
            simp only [Except.ok.injEq, Prod.mk.injEq] at h
            obtain ⟨a, b', c⟩ := h
            refine ⟨[b], by rw [c]; rfl, ?_⟩
            rw [tlfLoop, if_neg h1, if_neg h2]
            simp only
            rw [if_neg h3, if_neg h4, a, b']

/-- the tail of `parseTlf` after the loop -/
def tlfFinish (ty : Ty) : Except PErr (Nat × Nat × Bytes) → PRes Tlf
  | .error e => .error e
  | .ok (len, tlfLen, rest) =>
    if ty ≠ .listOf then
      if tlfLen > u32Max ∨ len < tlfLen then .error .tlfLengthUnderflow
      else .ok ({ ty := ty, len := len - tlfLen }, rest)
    else .ok ({ ty := ty, len := len }, rest)

theorem parseTlf_cons (b : UInt8) (rest : Bytes) :
    parseTlf (b :: rest) =
      match Ty.ofBits (tlfTyBits b) with
      | .error e => .error e
      | .ok ty =>
        if ty = .boolean ∧ tlfMore b then .error .tlfReserved
        else tlfFinish ty
          (if tlfMore b then tlfLoop (tlfNibble b) 1 rest else .ok (tlfNibble b, 1, rest)) := by
  rw [parseTlf]
  cases hty : Ty.ofBits (tlfTyBits b) with
  | error e => rfl
  | ok ty =>
    simp only
    split
    · rfl
    · simp only [tlfFinish]
      split <;> rename_i heq <;> simp only [heq]

theorem tlfFinish_ok {ty : Ty} {x : Except PErr (Nat × Nat × Bytes)} {t : Tlf} {r : Bytes}
    (h : tlfFinish ty x = .ok (t, r)) :
    ∃ l m, x = .ok (l, m, r) ∧ ∀ r', tlfFinish ty (.ok (l, m, r')) = .ok (t, r') := by
  cases x with
  | error e => cases h
  | ok v =>
    obtain ⟨l, m, r0⟩ := v
    refine ⟨l, m, ?_, ?_⟩
    · simp only [tlfFinish] at h
      split at h
      · split at h
        · cases h
        · simp only [Except.ok.injEq, Prod.mk.injEq] at h
          rw [h.2]
      · simp only [Except.ok.injEq, Prod.mk.injEq] at h
        rw [h.2]
    · intro r'
      simp only [tlfFinish] at h ⊢
      split at h
      · rename_i h1
        rw [if_pos h1]
        split at h
        · cases h
        · rename_i h2
          rw [if_neg h2]
          simp only [Except.ok.injEq, Prod.mk.injEq] at h
          rw [h.1]
      · rename_i h1
        rw [if_neg h1]
        simp only [Except.ok.injEq, Prod.mk.injEq] at h
        rw [h.1]

theorem parseTlf_append (i x : Bytes) (t : Tlf) (r : Bytes) (h : parseTlf i = .ok (t, r)) :
    parseTlf (i ++ x) = .ok (t, r ++ x) := by
  cases i with
  | nil => cases h
  | cons b rest =>
    rw [parseTlf_cons] at h
    rw [List.cons_append, parseTlf_cons]
    split at h
    · cases h
    · rename_i ty hty
      split at h
      · cases h
      · rename_i hres
        rw [if_neg hres]
        obtain ⟨l, m, hx, hfin⟩ := tlfFinish_ok h
        split at hx
        · rename_i hm
          rw [if_pos hm, tlfLoop_append x _ _ _ _ _ _ hx]
          exact hfin _
        · rename_i hm
          rw [if_neg hm]
          simp only [Except.ok.injEq, Prod.mk.injEq] at hx
          obtain ⟨a, b', c⟩ := hx
          rw [a, b', c]
          exact hfin _

theorem parseTlf_split (i : Bytes) (t : Tlf) (r : Bytes) (h : parseTlf i = .ok (t, r)) :
    ∃ e, i = e ++ r ∧ parseTlf e = .ok (t, []) := by
  cases i with
  | nil => cases h
  | cons b rest =>
    rw [parseTlf_cons] at h
    split at h
    · cases h
    · rename_i ty hty
      split at h
      · cases h
      · rename_i hres
        obtain ⟨l, m, hx, hfin⟩ := tlfFinish_ok h
        split at hx
        · rename_i hm
          obtain ⟨e, he, hl⟩ := tlfLoop_split _ _ _ _ _ _ hx
          refine ⟨b :: e, by rw [he]; rfl, ?_⟩
          rw [parseTlf_cons]
          simp only [hty]
          rw [if_neg hres, if_pos hm, hl]
          exact hfin _
        · rename_i hm
          simp only [Except.ok.injEq, Prod.mk.injEq] at hx
          obtain ⟨a, b', c⟩ := hx
          refine ⟨[b], by rw [c]; rfl, ?_⟩
          rw [parseTlf_cons]
          simp only [hty]
          rw [if_neg hres, if_neg hm, a, b']
          exact hfin _

/-- a complete field, in parser terms -/
theorem encTlf_iff (t : Tlf) (e : Bytes) : EncTlf t e ↔ parseTlf e = .ok (t, []) := by
  unfold EncTlf
  rw [← C12.parseTlf_eq_spec]
  constructor
  · intro h
    cases hp : parseTlf e with
    | error err => rw [hp] at h; cases h
    | ok v =>
      obtain ⟨t', r⟩ := v
      rw [hp] at h
      simp only [C12.consumed, Except.ok.injEq, Prod.mk.injEq] at h
      obtain ⟨n, h1, h2, h3, _⟩ := C12.parseTlf_ok e t' r hp
      have hr : r.length = e.length - n := by rw [h3]; simp
      have : r = [] := List.eq_nil_of_length_eq_zero (by omega)
      rw [h.1, this]
  · intro h
    rw [h]
    simp [C12.consumed]

theorem encTlf_nonempty {t : Tlf} {e : Bytes} (h : EncTlf t e) : e ≠ [] := by
  intro he
  subst he
  cases h

/-! ### `Parses p E` -/

/-- `p` recognises exactly the relation `E`, whatever follows: every encoding `e` of `v`, followed
    by any `rest`, is parsed as `v` leaving `rest` (completeness); and whenever `p` succeeds, the
    bytes it consumed are an encoding of the value it returns (soundness) -/
structure Parses {α : Type} (p : Bytes → PRes α) (E : α → Bytes → Prop) : Prop where
  complete : ∀ v e rest, E v e → p (e ++ rest) = .ok (v, rest)
  sound : ∀ i v r, p i = .ok (v, r) → ∃ e, i = e ++ r ∧ E v e

/-- encodings recognised by a parser that always consumes something are non-empty -/
theorem Parses.nonempty {α : Type} {p : Bytes → PRes α} {E : α → Bytes → Prop}
    (hp : Parses p E) (hg : Good p) {v : α} {e : Bytes} (h : E v e) : e ≠ [] := by
  intro he
  subst he
  have := (hg.ok (hp.complete v [] [] h)).length_le
  simp at this

theorem Parses.congr {α : Type} {p : Bytes → PRes α} {E E' : α → Bytes → Prop}
    (hp : Parses p E) (h : ∀ v e, E v e ↔ E' v e) : Parses p E' :=
  ⟨fun v e rest he => hp.complete v e rest ((h v e).2 he),
   fun i v r hi => by
     obtain ⟨e, h1, h2⟩ := hp.sound i v r hi
     exact ⟨e, h1, (h v e).1 h2⟩⟩

theorem parses_tlf : Parses parseTlf EncTlf where
  complete v e rest h := by
    have := parseTlf_append e rest v [] ((encTlf_iff _ _).1 h)
    simpa using this
  sound i v r h := by
    obtain ⟨e, he, hp⟩ := parseTlf_split i v r h
    exact ⟨e, he, (encTlf_iff _ _).2 hp⟩

/-- an element = a type-length field accepted by `check`, followed by a body that depends on it -/
theorem parses_viaTlf {α : Type} {check : Tlf → Bool} {withTlf : Bytes → Tlf → PRes α}
    {B : Tlf → α → Bytes → Prop} {E : α → Bytes → Prop}
    (hB : ∀ t, check t = true → Parses (fun i => withTlf i t) (B t))
    (hE1 : ∀ v bs, E v bs →
      ∃ t tl body, bs = tl ++ body ∧ EncTlf t tl ∧ check t = true ∧ B t v body)
    (hE2 : ∀ v t tl body, EncTlf t tl → check t = true → B t v body → E v (tl ++ body)) :
    Parses (parseViaTlf check withTlf) E where
  complete v e rest h := by
    obtain ⟨t, tl, body, rfl, ht, hc, hb⟩ := hE1 v e h
    unfold parseViaTlf
    rw [List.append_assoc, parses_tlf.complete t tl _ ht]
    simp only [hc, Bool.not_true, Bool.false_eq_true, if_false]
    exact (hB t hc).complete v body rest hb
  sound i v r h := by
    unfold parseViaTlf at h
    split at h
    · cases h
    · rename_i t i1 heq
      obtain ⟨tl, rfl, ht⟩ := parses_tlf.sound _ _ _ heq
      split at h
      · cases h
      · rename_i hc
        simp only [Bool.not_eq_true', Bool.not_eq_false] at hc
        obtain ⟨body, rfl, hb⟩ := (hB t hc).sound _ _ _ h
        exact ⟨tl ++ body, by simp, hE2 v t tl body ht hc hb⟩

/-- a payload of exactly `n` bytes -/
theorem parses_fixed {α : Type} {q : Bytes → PRes α} {n : Nat} {f : Bytes → α}
    (hq : ∀ i, q i = if i.length < n then .error .unexpectedEOF
      else .ok (f (i.take n), i.drop n)) :
    Parses q (fun v body => body.length = n ∧ v = f body) where
  complete v e rest h := by
    obtain ⟨hl, rfl⟩ := h
    rw [hq, if_neg (by simp; omega), List.take_left' hl, List.drop_left' hl]
  sound i v r h := by
    rw [hq] at h
    split at h
    · cases h
    · rename_i hl
      simp only [Except.ok.injEq, Prod.mk.injEq] at h
      obtain ⟨rfl, rfl⟩ := h
      exact ⟨i.take n, (List.take_append_drop n i).symm, by simp; omega, rfl⟩

theorem parses_mapRes {α β : Type} {p : Bytes → PRes α} {E : α → Bytes → Prop} (f : α → β)
    (hp : Parses p E) : Parses (fun i => mapRes f (p i)) (fun w e => ∃ v, w = f v ∧ E v e) where
  complete w e rest h := by
    obtain ⟨v, rfl, hv⟩ := h
    simp only [hp.complete v e rest hv, mapRes]
  sound i w r h := by
    cases hpi : p i with
    | error err => simp [hpi, mapRes] at h
    | ok x =>
      obtain ⟨v, r'⟩ := x
      simp only [hpi, mapRes, Except.ok.injEq, Prod.mk.injEq] at h
      obtain ⟨rfl, rfl⟩ := h
      obtain ⟨e, he, hv⟩ := hp.sound i v r' hpi
      exact ⟨e, he, v, rfl, hv⟩

theorem parses_fail {α : Type} {p : Bytes → PRes α} {err : PErr} (h : ∀ i, p i = .error err) :
    Parses p (fun _ _ => False) where
  complete v e rest hf := hf.elim
  sound i v r hi := by rw [h] at hi; cases hi

/-! ### optional elements -/

theorem parseOpt_eq {α : Type} (p : Bytes → PRes α) (i : Bytes) :
    parseOpt p i =
      if i.head? = some 0x01 then .ok (Option.none, i.tail)
      else match p i with
        | .error e => .error e
        | .ok (x, rest) => .ok (some x, rest) := by
  unfold parseOpt
  split
  · simp
  · rename_i hne
    have : ¬ i.head? = some 0x01 := by
      intro hh
      cases i with
      | nil => simp at hh
      | cons b i =>
        simp only [List.head?_cons, Option.some.injEq] at hh
        exact hne i (by rw [hh])
    rw [if_neg this]
    rcases p i with e | ⟨x, r⟩ <;> rfl

theorem parses_opt {α : Type} {p : Bytes → PRes α} {E : α → Bytes → Prop}
    (hp : Parses p E) (hg : Good p) : Parses (parseOpt p) (EncOpt E) where
  complete v e rest h := by
    rw [parseOpt_eq]
    cases v with
    | none =>
      simp only [EncOpt] at h
      subst h
      simp
    | some v =>
      obtain ⟨hv, hh⟩ := h
      have hne := hp.nonempty hg hv
      have : (e ++ rest).head? = e.head? := by
        cases e with
        | nil => exact absurd rfl hne
        | cons b e => rfl
      rw [this, if_neg hh, hp.complete v e rest hv]
  sound i v r h := by
    rw [parseOpt_eq] at h
    split at h
    · rename_i hh
      simp only [Except.ok.injEq, Prod.mk.injEq] at h
      obtain ⟨rfl, rfl⟩ := h
      cases i with
      | nil => simp at hh
      | cons b i =>
        simp only [List.head?_cons, Option.some.injEq] at hh
        subst hh
        exact ⟨[0x01], rfl, rfl⟩
    · rename_i hh
      split at h
      · cases h
      · rename_i x r' heq
        simp only [Except.ok.injEq, Prod.mk.injEq] at h
        obtain ⟨rfl, rfl⟩ := h
        obtain ⟨e, rfl, hv⟩ := hp.sound _ _ _ heq
        have hne := hp.nonempty hg hv
        refine ⟨e, rfl, hv, ?_⟩
        cases e with
        | nil => exact absurd rfl hne
        | cons b e => exact hh

/-! ### sequences -/

theorem parses_seq_nonempty {α : Type} {E : α → Bytes → Prop} (hne : ∀ v e, E v e → e ≠ [])
    {xs : List α} {bs : Bytes} (h : EncSeq E xs bs) : xs = [] ↔ bs = [] := by
  cases h with
  | nil => simp
  | cons hx hxs =>
    have := hne _ _ hx
    simp [this]

/-! ### octet strings and numbers -/

theorem twos_eq (bs : Bytes) : Spec.twos bs = C12.twos bs := by
  cases bs with
  | nil => simp [Spec.twos, C12.twos, beNat]
  | cons b bs => simp [Spec.twos, C12.twos]

theorem parses_octet : Parses parseOctet EncOctet := by
  unfold parseOctet
  refine parses_viaTlf (B := fun t v body => body.length = t.len ∧ v = body)
    (fun t _ => parses_fixed (f := id) (fun i => C12.octet_exact i t)) ?_ ?_
  · rintro v bs ⟨tl, rfl, ht⟩
    exact ⟨_, tl, v, rfl, ht, rfl, rfl, rfl⟩
  · rintro v ⟨ty, len⟩ tl body ht hc ⟨hl, rfl⟩
    simp only [octetCheck, decide_eq_true_eq] at hc hl
    subst hc hl
    exact ⟨tl, rfl, ht⟩

/-- the relation recognised by `parseInt signed size` -/
def EncNum (signed : Bool) (size : Nat) : Int → Bytes → Prop :=
  if signed then EncSigned size else EncUnsigned size

theorem parses_num_body (signed : Bool) (size : Nat) (hs : size ∈ [1, 2, 4, 8]) (t : Tlf)
    (hc : numCheck signed size t = true) :
    Parses (fun i => parseNum signed size i t)
      (fun v body => body.length = t.len ∧
        v = if signed then Spec.twos body else (beNat body : Int)) := by
  refine (parses_fixed (n := t.len)
    (f := fun b => if signed then C12.twos b else C12.plain b)
    (fun i => C12.int_exact signed size hs t i hc)).congr ?_
  intro v e
  simp only [twos_eq, C12.plain]

theorem parses_int (signed : Bool) (size : Nat) (hs : size ∈ [1, 2, 4, 8]) :
    Parses (parseInt signed size) (EncNum signed size) := by
  unfold parseInt
  refine parses_viaTlf (fun t hc => parses_num_body signed size hs t hc) ?_ ?_
  · intro v bs h
    cases signed with
    | false =>
      obtain ⟨tl, data, rfl, ht, h1, h2, rfl⟩ := h
      exact ⟨_, tl, data, rfl, ht, (C12.numCheck_iff _ _ _).2 ⟨rfl, h1, h2⟩, rfl, rfl⟩
    | true =>
      obtain ⟨tl, data, rfl, ht, h1, h2, rfl⟩ := h
      exact ⟨_, tl, data, rfl, ht, (C12.numCheck_iff _ _ _).2 ⟨rfl, h1, h2⟩, rfl, rfl⟩
  · rintro v ⟨ty, len⟩ tl body ht hc ⟨hl, hv⟩
    obtain ⟨h0, h1, h2⟩ := (C12.numCheck_iff _ _ _).1 hc
    simp only at h0 h1 h2 hl
    subst hl
    cases signed with
    | false =>
      simp only [Bool.false_eq_true, if_false] at h0 hv
      subst h0
      exact ⟨tl, body, rfl, ht, h1, h2, hv⟩
    | true =>
      simp only [if_true] at h0 hv
      subst h0
      exact ⟨tl, body, rfl, ht, h1, h2, hv⟩

theorem parses_unsigned (size : Nat) (hs : size ∈ [1, 2, 4, 8]) :
    Parses (parseInt false size) (EncUnsigned size) := parses_int false size hs

theorem parses_signed (size : Nat) (hs : size ∈ [1, 2, 4, 8]) :
    Parses (parseInt true size) (EncSigned size) := parses_int true size hs

end Sml.Gram

import Sml.Model.Decode
/-
  Decoder front-ends:
  * operation histories on `Decoder<B>` (push_byte / finalize / reset, and replacing the decoder
    by `Decoder::new()` / `Decoder::from_buf(buf)`),
  * `decode` (decode.rs:466-480),
  * `DecodeIterator` / `decode_streaming` (decode.rs:483-523),
  * `DecoderReader` over a byte source with faults (decoder_reader.rs:66-141, util.rs:165-378).
-/
namespace Sml

/-! ### histories of operations on the push decoder -/

inductive Op where
  | push (b : UInt8)
  | fin
  | reset
  /-- `Decoder::new()`: the decoder is replaced by a new one over a buffer of the same type
  (same capacity) -/
  | new
  /-- `Decoder::from_buf(buf)`: the decoder is replaced by a new one over a caller-supplied buffer
  of the same type that already holds the bytes `stale` (oldest first) -/
  | fromBuf (stale : List UInt8)
  deriving Repr, DecidableEq

inductive OpOut where
  | out (o : Out)
  | fin (e : Option DecErr)
  | reset (n : Nat)
  | new
  | fromBuf
  deriving Repr, DecidableEq

def Dec.step (d : Dec) : Op → Dec × OpOut
  | .push b => let (d', o) := d.push b; (d', .out o)
  | .fin => let (d', e) := d.finalize; (d', .fin e)
  | .reset => let (d', n) := d.reset; (d', .reset n)
  | .new => (Dec.fresh d.buf.cap, .new)
  | .fromBuf stale => (Dec.fromBuf { cap := d.buf.cap, rdata := stale.reverse }, .fromBuf)

def Dec.run (d : Dec) : List Op → Dec × List OpOut
  | [] => (d, [])
  | op :: ops =>
    let (d', o) := d.step op
    let (d'', os) := Dec.run d' ops
    (d'', o :: os)

/-- feed bytes, collect one `Out` per byte -/
def Dec.pushAll (d : Dec) : List UInt8 → Dec × List Out
  | [] => (d, [])
  | b :: bs =>
    let (d', o) := d.push b
    let (d'', os) := Dec.pushAll d' bs
    (d'', o :: os)

/-! ### items reported by the list / iterator front-ends -/

inductive Item where
  | ok (m : List UInt8)
  | err (e : DecErr)
  | panic (site : String)
  deriving Repr, DecidableEq

def Out.toItem? : Out → Option Item
  | .none => Option.none
  | .msg m => some (Item.ok m)
  | .err e => some (Item.err e)
  | .panic s => some (Item.panic s)

/-- `decode(bytes)` (decode.rs:466-480); the decoder uses a `Vec<u8>` -/
def decodeAll (s : List UInt8) : List Item :=
  go (Dec.fresh none) s
where
  go (d : Dec) : List UInt8 → List Item
    | [] =>
      match d.finalize with
      | (_, some e) => [.err e]
      | (_, none) => []
    | b :: bs =>
      match d.push b with
      | (d', .none) => go d' bs
      | (d', .msg m) => .ok m :: go d' bs
      | (d', .err e) => .err e :: go d' bs
      | (_, .panic s) => [.panic s]

/-- `DecodeIterator` (decode.rs:483-523) -/
structure DecIter where
  dec : Dec
  bytes : List UInt8
  done : Bool
  deriving Repr, DecidableEq

namespace DecIter

def new (cap : Option Nat) (s : List UInt8) : DecIter :=
  { dec := Dec.fresh cap, bytes := s, done := false }

/-- the `loop` of `DecodeIterator::next` once `done` is known to be false -/
def pull (d : Dec) : List UInt8 → DecIter × Option Item
  | [] =>
    let (d', e) := d.finalize
    ({ dec := d', bytes := [], done := true }, e.map .err)
  | b :: bs =>
    match d.pushByte b with
    | (d', .ready) =>
      ({ dec := d', bytes := bs, done := false },
        some (match d'.borrowBuf with | .msg m => .ok m | .panic s => .panic s | _ => .panic "unreachable"))
    | (d', .err e) => ({ dec := d', bytes := bs, done := false }, some (.err e))
    | (d', .panic s) => ({ dec := d', bytes := bs, done := false }, some (.panic s))
    | (d', .more) => pull d' bs

/-- `DecodeIterator::next` -/
def next (it : DecIter) : DecIter × Option Item :=
  if it.done then (it, none) else pull it.dec it.bytes

/-- call `next` `n` times -/
def take (it : DecIter) : Nat → List (Option Item)
  | 0 => []
  | n + 1 => let (it', r) := it.next; r :: take it' n

end DecIter

/-! ### byte sources -/

/-- what the underlying source does on successive read attempts; after the list: end of input
(reported again by every later attempt).
`eof` is a *mid-stream* end of input: this read attempt reports end of input (for
`IoByteSource`, `read_exact` sees `Ok(0)` or `Err(UnexpectedEof)`, util.rs:217-242: an error of
kind `ErrKind::Eof`), later attempts go on with the following events (a file that is being
appended to, a socket or pipe that delivers more later, ...). -/
inductive Ev where
  | byte (b : UInt8)
  | wouldBlock
  | interrupted
  | other
  | eof
  deriving Repr, DecidableEq

/-- which `ByteSource` wraps the events -/
inductive SrcKind where
  | mem      -- SliceByteSource / IterByteSource: bytes only, then `Eof`
  | io       -- IoByteSource over std::io::Read: `read_exact` of one byte
  | eh       -- EhByteSource over embedded-hal serial::Read: never ends (WouldBlock forever)
  deriving Repr, DecidableEq

/-- `ErrKind` (util.rs:191-195) -/
inductive IoKind where
  | eof | wouldBlock | other
  deriving Repr, DecidableEq

/-- results of `read` / `next` / `read_nb` / `next_nb` -/
inductive RItem where
  | ok (m : List UInt8)
  | decErr (e : DecErr)
  | ioErr (k : IoKind) (n : Nat)
  | nbWouldBlock
  | none
  | panic (site : String)
  deriving Repr, DecidableEq

structure Rdr where
  kind : SrcKind
  dec : Dec
  evs : List Ev
  deriving Repr, DecidableEq

namespace Rdr

def new (kind : SrcKind) (cap : Option Nat) (evs : List Ev) : Rdr :=
  { kind := kind, dec := Dec.fresh cap, evs := evs }

/-- an I/O error of kind `k` has been returned by `read_byte` (decoder_reader.rs:74-84) -/
def onIoErr (kind : SrcKind) (d : Dec) (evs : List Ev) (k : IoKind) : Rdr × RItem :=
  match k with
  | .wouldBlock => ({ kind := kind, dec := d, evs := evs }, .ioErr .wouldBlock 0)
  | k => let (d', n) := d.reset; ({ kind := kind, dec := d', evs := evs }, .ioErr k n)

/-- `DecoderReader::read` (decoder_reader.rs:66-87) -/
def readLoop (kind : SrcKind) (d : Dec) : List Ev → Rdr × RItem
  | [] =>
    match kind with
    | .eh => onIoErr kind d [] .wouldBlock
    | _ => onIoErr kind d [] .eof
  | .byte b :: evs =>
    match d.pushByte b with
    | (d', .more) => readLoop kind d' evs
    | (d', .ready) =>
      ({ kind := kind, dec := d', evs := evs },
        match d'.borrowBuf with | .msg m => .ok m | .panic s => .panic s | _ => .panic "unreachable")
    | (d', .err e) => ({ kind := kind, dec := d', evs := evs }, .decErr e)
    | (d', .panic s) => ({ kind := kind, dec := d', evs := evs }, .panic s)
  | .wouldBlock :: evs => onIoErr kind d evs .wouldBlock
  | .interrupted :: evs =>
    match kind with
    | .io => readLoop kind d evs          -- `read_exact` retries on ErrorKind::Interrupted
    | _ => onIoErr kind d evs .other
  | .other :: evs => onIoErr kind d evs .other
  | .eof :: evs =>
    match kind with
    | .eh => onIoErr kind d evs .other     -- embedded-hal has no end of input: any error is `Other`
    | _ => onIoErr kind d evs .eof         -- (`.mem` sources never report it before their end)

def read (r : Rdr) : Rdr × RItem := readLoop r.kind r.dec r.evs

/-- `DecoderReader::next` (decoder_reader.rs:101-106) -/
def next (r : Rdr) : Rdr × RItem :=
  match r.read with
  | (r', .ioErr .eof 0) => (r', .none)
  | x => x

/-- `DecoderReader::read_nb` (decoder_reader.rs:118-123) -/
def readNb (r : Rdr) : Rdr × RItem :=
  match r.read with
  | (r', .ioErr .wouldBlock _) => (r', .nbWouldBlock)
  | x => x

/-- `DecoderReader::next_nb` (decoder_reader.rs:135-141) -/
def nextNb (r : Rdr) : Rdr × RItem :=
  match r.readNb with
  | (r', .ioErr .eof 0) => (r', .none)
  | x => x

inductive Call where
  | read | next | readNb | nextNb
  deriving Repr, DecidableEq

def call (r : Rdr) : Call → Rdr × RItem
  | .read => r.read
  | .next => r.next
  | .readNb => r.readNb
  | .nextNb => r.nextNb

def calls (r : Rdr) : List Call → Rdr × List RItem
  | [] => (r, [])
  | c :: cs =>
    let (r', x) := r.call c
    let (r'', xs) := calls r' cs
    (r'', x :: xs)

end Rdr

end Sml

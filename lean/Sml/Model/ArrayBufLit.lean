import Sml.Model.Buf
/-
  Literal, statement-by-statement transcription of `ArrayBuf<N>` (src/util.rs:113-150).

  `Sml/Model/Buf.lean` models every `Buffer` operation of `ArrayBuf<N>` by its net effect and its
  out-of-memory result (`BufRes.oom`) carries no post-state.  "A failing operation leaves the
  contents unchanged" is then true by construction.  Here every operation is a state transformer
  whose result carries the post-state of `*self` in EVERY outcome (`LitRes`), and the Rust order of
  checks and writes is kept: each Rust statement is one `let`/`match` step below, introduced by the
  source line it transcribes.  If somebody moved the capacity check of `extend_from_slice` behind
  the copy, the transcription would change and `Sml.C18.oom_unchanged` would fail (see the mutants
  at the end of `Sml/Lemmas/C18Lit.lean`).

  State: the existing structure `ArrayBuf` (backing list of exactly `N` bytes + `num_elements`).
  `self.N` is the const generic `N` (= length of the backing array).

  Panics of the Rust code (array index, range slicing, `copy_from_slice` length check, `unwrap`)
  are explicit `panic` outcomes.  `usize` arithmetic is modelled in `Nat`: with
  `num_elements ≤ N ≤ isize::MAX` and `other.len() ≤ isize::MAX` the sum in util.rs:143 is below
  `usize::MAX`, as in `Buf.lean`.
-/
namespace Sml

/-- Result of one literal `ArrayBuf` operation.  `ok a` = `Ok(())` with `*self = a` afterwards,
    `oom a` = `Err(OutOfMemory)` with `*self = a` afterwards, `panic` = the thread panics. -/
inductive LitRes where
  | ok (a : ArrayBuf)
  | oom (a : ArrayBuf)
  | panic (site : String)
  deriving Repr, DecidableEq

/-- forget the post-state of the `Err(OutOfMemory)` outcome (the result type of `Buf.lean`) -/
def LitRes.toBufRes : LitRes → BufRes ArrayBuf
  | .ok a => .ok a
  | .oom _ => .oom
  | .panic s => .panic s

namespace ArrayBufLit

/-! ### the primitive slice / array operations used by util.rs:123-150 -/

/-- `arr[i] = b` (`IndexMut<usize>` on `[u8; N]`): `none` = panic when `i ≥ arr.len()` -/
def indexSet (arr : List UInt8) (i : Nat) (b : UInt8) : Option (List UInt8) :=
  if i < arr.length then some (arr.set i b) else Option.none

/-- `&mut s[start..]` (`RangeFrom`): `none` = panic when `start > s.len()`.  Returns the part of
    `s` in front of the view (not reachable through the view) and the view itself. -/
def sliceFrom (s : List UInt8) (start : Nat) : Option (List UInt8 × List UInt8) :=
  if start ≤ s.length then some (s.take start, s.drop start) else Option.none

/-- `&mut s[..stop]` (`RangeTo`): `none` = panic when `stop > s.len()`.  Returns the view and the
    part of `s` behind it. -/
def sliceTo (s : List UInt8) (stop : Nat) : Option (List UInt8 × List UInt8) :=
  if stop ≤ s.length then some (s.take stop, s.drop stop) else Option.none

/-- `dst.copy_from_slice(src)`: `none` = panic when the lengths differ; otherwise every byte of
    the view `dst` is overwritten by `src` -/
def copyFromSlice (dst src : List UInt8) : Option (List UInt8) :=
  if dst.length = src.length then some src else Option.none

/-! ### `impl<const N: usize> Buffer for ArrayBuf<N>` (util.rs:123-150) -/

/-- util.rs:124-132
```
fn push(&mut self, b: u8) -> Result<(), OutOfMemory> {
    if self.num_elements == N {
        Err(OutOfMemory)
    } else {
        self.buffer[self.num_elements] = b;
        self.num_elements += 1;
        Ok(())
    }
}
``` -/
def push (self : ArrayBuf) (b : UInt8) : LitRes :=
  -- 125: if self.num_elements == N {
  if self.numElements = self.N then
    -- 126: Err(OutOfMemory)
    .oom self
  else
    -- 128: self.buffer[self.num_elements] = b;
    match indexSet self.buffer self.numElements b with
    | Option.none => .panic "util.rs:128 index out of bounds"
    | some buffer1 =>
      let self1 : ArrayBuf := { self with buffer := buffer1 }
      -- 129: self.num_elements += 1;
      let self2 : ArrayBuf := { self1 with numElements := self1.numElements + 1 }
      -- 130: Ok(())
      .ok self2

/-- util.rs:134-136
```
fn truncate(&mut self, len: usize) {
    self.num_elements = self.num_elements.min(len);
}
``` -/
def truncate (self : ArrayBuf) (len : Nat) : LitRes :=
  -- 135: self.num_elements = self.num_elements.min(len);
  let self1 : ArrayBuf := { self with numElements := min self.numElements len }
  .ok self1

/-- util.rs:138-140
```
fn clear(&mut self) {
    self.num_elements = 0;
}
``` -/
def clear (self : ArrayBuf) : LitRes :=
  -- 139: self.num_elements = 0;
  let self1 : ArrayBuf := { self with numElements := 0 }
  .ok self1

/-- util.rs:142-149
```
fn extend_from_slice(&mut self, other: &[u8]) -> Result<(), OutOfMemory> {
    if self.num_elements + other.len() > N {
        return Err(OutOfMemory);
    }
    self.buffer[self.num_elements..][..other.len()].copy_from_slice(other);
    self.num_elements += other.len();
    Ok(())
}
``` -/
def extendFromSlice (self : ArrayBuf) (other : List UInt8) : LitRes :=
  -- 143: if self.num_elements + other.len() > N {
  if self.numElements + other.length > self.N then
    -- 144: return Err(OutOfMemory);          (nothing has been written yet)
    .oom self
  else
    -- 146: self.buffer[self.num_elements..]
    match sliceFrom self.buffer self.numElements with
    | Option.none => .panic "util.rs:146 range start index out of range"
    | some (front, view1) =>
    -- 146:                               [..other.len()]
    match sliceTo view1 other.length with
    | Option.none => .panic "util.rs:146 range end index out of range"
    | some (view2, back) =>
    -- 146:                                              .copy_from_slice(other);
    match copyFromSlice view2 other with
    | Option.none => .panic "util.rs:146 copy_from_slice length mismatch"
    | some view2' =>
      let self1 : ArrayBuf := { self with buffer := front ++ view2' ++ back }
      -- 147: self.num_elements += other.len();
      let self2 : ArrayBuf := { self1 with numElements := self1.numElements + other.length }
      -- 148: Ok(())
      .ok self2

/-! ### `impl<const N: usize> FromIterator<u8> for ArrayBuf<N>` (util.rs:113-121) -/

/-- the `for x in iter.into_iter() { buf.push(x).unwrap(); }` loop (util.rs:116-118) -/
def fromIterLoop (buf : ArrayBuf) : List UInt8 → LitRes
  -- 119: buf                                  (iterator exhausted: fall through to line 119)
  | [] => .ok buf
  | x :: iter =>
    -- 117: buf.push(x)
    match push buf x with
    -- 117:            .unwrap();             (Ok: continue with the mutated `buf`)
    | .ok buf1 => fromIterLoop buf1 iter
    -- 117:            .unwrap();             (Err: panic)
    | .oom _ => .panic "util.rs:117 unwrap on OutOfMemory"
    | .panic s => .panic s

/-- util.rs:114-120
```
fn from_iter<T: IntoIterator<Item = u8>>(iter: T) -> Self {
    let mut buf = ArrayBuf::default();
    for x in iter.into_iter() {
        buf.push(x).unwrap();
    }
    buf
}
```
`n` is the const generic `N`.  The result is `ok buf` (the returned value) or a panic; never `oom`. -/
def fromIter (n : Nat) (iter : List UInt8) : LitRes :=
  -- 115: let mut buf = ArrayBuf::default();
  let buf := ArrayBuf.new n
  -- 116-119
  fromIterLoop buf iter

end ArrayBufLit

end Sml

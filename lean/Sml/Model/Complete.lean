import Sml.Model.Parser
/-
  The allocating parser (src/parser/complete.rs).
-/
namespace Sml

structure GetListResponse where
  clientId : Option Bytes
  serverId : Bytes
  listName : Option Bytes
  actSensorTime : Option Time
  valList : List ListEntry
  listSignature : Option Bytes
  actGatewayTime : Option Time
  deriving Repr, DecidableEq

/-- the element count passed to `Vec::with_capacity` (complete.rs:246, after the fix):
    `(tlf.len as usize).min(input.len())` -/
def listCapRequest (declared : Nat) (input : Bytes) : Nat := min declared input.length

/-- `for _ in 0..tlf.len { ListEntry::parse(input)? }` (complete.rs:247-251) -/
def parseEntries : Nat → Bytes → PRes (List ListEntry)
  | 0, input => .ok ([], input)
  | n + 1, input =>
    match parseListEntry input with
    | .error e => .error e
    | .ok (x, input) =>
      match parseEntries n input with
      | .error e => .error e
      | .ok (xs, input) => .ok (x :: xs, input)

/-- `List::parse` (complete.rs:240-254) -/
def parseList (input : Bytes) : PRes (List ListEntry) :=
  parseViaTlf (fun tlf => tlf.ty = .listOf) (fun input tlf => parseEntries tlf.len input) input

/-- `GetListResponse::parse_with_tlf` (complete.rs:192-211) -/
def parseGetListResponseWith (input : Bytes) (_tlf : Tlf) : PRes GetListResponse :=
  match parseOpt parseOctet input with
  | .error e => .error e
  | .ok (clientId, input) =>
  match parseOctet input with
  | .error e => .error e
  | .ok (serverId, input) =>
  match parseOpt parseOctet input with
  | .error e => .error e
  | .ok (listName, input) =>
  match parseOpt parseTime input with
  | .error e => .error e
  | .ok (actSensorTime, input) =>
  match parseList input with
  | .error e => .error e
  | .ok (valList, input) =>
  match parseOpt parseOctet input with
  | .error e => .error e
  | .ok (listSignature, input) =>
  match parseOpt parseTime input with
  | .error e => .error e
  | .ok (actGatewayTime, input) =>
    .ok ({ clientId, serverId, listName, actSensorTime, valList, listSignature, actGatewayTime }, input)

def parseGetListResponse : Bytes → PRes GetListResponse :=
  parseViaTlf (listCheck 7) parseGetListResponseWith

inductive MessageBody where
  | openResponse (x : OpenResponse)
  | closeResponse (x : CloseResponse)
  | getListResponse (x : GetListResponse)
  deriving Repr, DecidableEq

/-- `MessageBody::parse_with_tlf` (complete.rs:148-166) -/
def parseMessageBodyWith (input : Bytes) (_tlf : Tlf) : PRes MessageBody :=
  match parseInt false 4 input with
  | .error e => .error e
  | .ok (tag, input) =>
    if tag = 0x0101 then mapRes .openResponse (parseOpenResponse input)
    else if tag = 0x0201 then mapRes .closeResponse (parseCloseResponse input)
    else if tag = 0x0701 then mapRes .getListResponse (parseGetListResponse input)
    else .error .unexpectedVariant

def parseMessageBody : Bytes → PRes MessageBody := parseViaTlf (listCheck 2) parseMessageBodyWith

structure Message where
  transactionId : Bytes
  groupNo : Int
  abortOnError : Int
  messageBody : MessageBody
  deriving Repr, DecidableEq

/-- `Message::parse` (complete.rs:71-104) -/
def parseMessage (input : Bytes) : PRes Message :=
  let orig := input
  match parseMsgHeader input with
  | .error e => .error e
  | .ok ((transactionId, groupNo, abortOnError), input) =>
  match parseMessageBody input with
  | .error e => .error e
  | .ok (messageBody, input) =>
  match parseMsgTrailer orig input with
  | .error e => .error e
  | .ok (_, input) => .ok ({ transactionId, groupNo, abortOnError, messageBody }, input)

structure File where
  messages : List Message
  deriving Repr, DecidableEq

/-- `while !input.is_empty() { Message::parse }` (complete.rs:44-55); `fuel` bounds the number of
    iterations (every message consumes at least one byte; C06 proves the fuel never runs out) -/
def parseMessages : Nat → Bytes → Except PErr (List Message)
  | _, [] => .ok []
  | 0, _ :: _ => .error (.panic "model: fuel exhausted")
  | fuel + 1, input =>
    match parseMessage input with
    | .error e => .error e
    | .ok (m, rest) =>
      match parseMessages fuel rest with
      | .error e => .error e
      | .ok ms => .ok (m :: ms)

/-- `complete::parse` = `File::parse_complete` (complete.rs:259-261, mod.rs:173-179).
    `File::parse` only returns with empty input, so `LeftoverInput` cannot arise. -/
def parseFile (input : Bytes) : Except PErr File :=
  match parseMessages input.length input with
  | .error e => .error e
  | .ok ms => .ok { messages := ms }

end Sml

import Sml.Model.Complete
/-
  Allocation ghost for the allocating parser (src/parser/complete.rs).

  `parseFileG` is an instrumented copy of `parseFile` (through `parseMessagesG`, `parseMessageG`,
  `parseMessageBodyG`, `parseGetListResponseG`, `parseListG`).  Besides the result it returns

  * `caps`: the element counts passed to `Vec::with_capacity` (complete.rs:246), one request per
    list parsed, in program order.  The request is recorded even when the entry loop (or anything
    later in the message) then fails.  It is `listCapRequest tlf.len input` where `input` is the
    remaining input right after the list's type-length field:
    `(tlf.len as usize).min(input.len())`;
  * `pushes`: the number of `messages.push(msg)` calls (complete.rs:48), one per parsed message.

  These are the only two containers of the allocating parser (`Vec<ListEntry>` per list response,
  `Vec<Message>` per file); all other values borrow from the input.  `v.push(x)` inside the list
  loop never grows a list beyond the number of successfully parsed entries, which is at most the
  number of input bytes consumed (`Sml.C06.entries_bound`).

  The streaming parser (Model/Streaming.lean) has no container at all: its state `SParser` is two
  slices and a counter and every event borrows from the input.  That it allocates nothing is
  therefore not a theorem about this model; it is measured on the implementation by the test
  harness (counting allocator).

  `Sml.C06.ghost_faithful` proves that the first component of `parseFileG` IS `parseFile`.
-/
namespace Sml

structure Ghost where
  caps : List Nat
  pushes : Nat
  deriving Repr, DecidableEq

/-- `impl SmlParse for T: SmlParseTlf` with a ghost-returning `parse_with_tlf` -/
def parseViaTlfG {α : Type} (check : Tlf → Bool) (withTlf : Bytes → Tlf → PRes α × List Nat)
    (input : Bytes) : PRes α × List Nat :=
  match parseTlf input with
  | .error e => (.error e, [])
  | .ok (tlf, rest) =>
    if !check tlf then (.error .tlfMismatch, []) else withTlf rest tlf

/-- `List::parse_with_tlf` (complete.rs:244-253): one `Vec::with_capacity` request, then the loop -/
def parseListWithG (input : Bytes) (tlf : Tlf) : PRes (List ListEntry) × List Nat :=
  (parseEntries tlf.len input, [listCapRequest tlf.len input])

def parseListG (input : Bytes) : PRes (List ListEntry) × List Nat :=
  parseViaTlfG (fun tlf => tlf.ty = .listOf) parseListWithG input

/-- `GetListResponse::parse_with_tlf` (complete.rs:192-211) -/
def parseGetListResponseWithG (input : Bytes) (_tlf : Tlf) : PRes GetListResponse × List Nat :=
  match parseOpt parseOctet input with
  | .error e => (.error e, [])
  | .ok (clientId, input) =>
  match parseOctet input with
  | .error e => (.error e, [])
  | .ok (serverId, input) =>
  match parseOpt parseOctet input with
  | .error e => (.error e, [])
  | .ok (listName, input) =>
  match parseOpt parseTime input with
  | .error e => (.error e, [])
  | .ok (actSensorTime, input) =>
  match parseListG input with
  | (.error e, caps) => (.error e, caps)
  | (.ok (valList, input), caps) =>
  match parseOpt parseOctet input with
  | .error e => (.error e, caps)
  | .ok (listSignature, input) =>
  match parseOpt parseTime input with
  | .error e => (.error e, caps)
  | .ok (actGatewayTime, input) =>
    (.ok ({ clientId, serverId, listName, actSensorTime, valList, listSignature, actGatewayTime },
      input), caps)

def parseGetListResponseG : Bytes → PRes GetListResponse × List Nat :=
  parseViaTlfG (listCheck 7) parseGetListResponseWithG

/-- `MessageBody::parse_with_tlf` (complete.rs:148-166) -/
def parseMessageBodyWithG (input : Bytes) (_tlf : Tlf) : PRes MessageBody × List Nat :=
  match parseInt false 4 input with
  | .error e => (.error e, [])
  | .ok (tag, input) =>
    if tag = 0x0101 then (mapRes .openResponse (parseOpenResponse input), [])
    else if tag = 0x0201 then (mapRes .closeResponse (parseCloseResponse input), [])
    else if tag = 0x0701 then
      ((mapRes .getListResponse (parseGetListResponseG input).1), (parseGetListResponseG input).2)
    else (.error .unexpectedVariant, [])

def parseMessageBodyG : Bytes → PRes MessageBody × List Nat :=
  parseViaTlfG (listCheck 2) parseMessageBodyWithG

/-- `Message::parse` (complete.rs:71-104) -/
def parseMessageG (input : Bytes) : PRes Message × List Nat :=
  let orig := input
  match parseMsgHeader input with
  | .error e => (.error e, [])
  | .ok ((transactionId, groupNo, abortOnError), input) =>
  match parseMessageBodyG input with
  | (.error e, caps) => (.error e, caps)
  | (.ok (messageBody, input), caps) =>
  match parseMsgTrailer orig input with
  | .error e => (.error e, caps)
  | .ok (_, input) => (.ok ({ transactionId, groupNo, abortOnError, messageBody }, input), caps)

/-- `File::parse` (complete.rs:44-55): `messages.push(msg)` after every parsed message -/
def parseMessagesG : Nat → Bytes → Except PErr (List Message) × Ghost
  | _, [] => (.ok [], ⟨[], 0⟩)
  | 0, _ :: _ => (.error (.panic "model: fuel exhausted"), ⟨[], 0⟩)
  | fuel + 1, input =>
    match parseMessageG input with
    | (.error e, caps) => (.error e, ⟨caps, 0⟩)
    | (.ok (m, rest), caps) =>
      let r := parseMessagesG fuel rest
      ((match r.1 with
        | .error e => .error e
        | .ok ms => .ok (m :: ms)), ⟨caps ++ r.2.caps, r.2.pushes + 1⟩)

/-- `complete::parse` with the allocation ghost -/
def parseFileG (input : Bytes) : Except PErr File × Ghost :=
  let r := parseMessagesG input.length input
  ((match r.1 with
    | .error e => .error e
    | .ok ms => .ok { messages := ms }), r.2)

end Sml

/-
  Buffers (src/util.rs).

  * `ArrayBuf` mirrors the real representation of `ArrayBuf<N>` (util.rs:79-150): a backing
    array of exactly `N` bytes that keeps stale data, plus `num_elements`.  Every slice / index
    operation that can panic in Rust is an explicit `panic` outcome.
  * `IdealVec` is the specification C18 is stated against: a byte list limited to `N` elements.
  * `Buf` is the abstract bounded vector used by the decoder / encoder models (`cap = none` is
    `Vec<u8>`, whose `try_reserve` is assumed never to fail).  `rdata` is stored *reversed*
    (newest byte first) so that pushing is O(1) when the model is executed.
-/
namespace Sml

/-! ### Results of fallible buffer operations -/

inductive BufRes (α : Type) where
  | ok (v : α)
  | oom
  | panic (site : String)
  deriving Repr, DecidableEq

/-! ### The real ArrayBuf representation -/

structure ArrayBuf where
  buffer : List UInt8      -- always length N (invariant, proved in C18)
  numElements : Nat
  deriving Repr, DecidableEq

namespace ArrayBuf

/-- `ArrayBuf::default()` (util.rs:84-91) -/
def new (n : Nat) : ArrayBuf := { buffer := List.replicate n 0, numElements := 0 }

/-- the const generic `N` is the length of the backing array -/
def N (a : ArrayBuf) : Nat := a.buffer.length

/-- `Deref::deref` (util.rs:108-110): `&self.buffer[0..self.num_elements]`; panics if out of range -/
def deref (a : ArrayBuf) : BufRes (List UInt8) :=
  if a.numElements ≤ a.buffer.length then .ok (a.buffer.take a.numElements)
  else .panic "util.rs:109 slice end out of range"

/-- `push` (util.rs:124-132) -/
def push (a : ArrayBuf) (b : UInt8) : BufRes ArrayBuf :=
  if a.numElements = a.N then .oom
  else if a.numElements < a.buffer.length then
    .ok { buffer := a.buffer.set a.numElements b, numElements := a.numElements + 1 }
  else .panic "util.rs:128 index out of bounds"

/-- `truncate` (util.rs:134-136) -/
def truncate (a : ArrayBuf) (len : Nat) : ArrayBuf :=
  { a with numElements := min a.numElements len }

/-- `clear` (util.rs:138-140) -/
def clear (a : ArrayBuf) : ArrayBuf := { a with numElements := 0 }

/-- `extend_from_slice` (util.rs:142-149) -/
def extendFromSlice (a : ArrayBuf) (other : List UInt8) : BufRes ArrayBuf :=
  if a.numElements + other.length > a.N then .oom
  else if a.numElements ≤ a.buffer.length ∧ other.length ≤ a.buffer.length - a.numElements then
    -- `self.buffer[num_elements..][..other.len()].copy_from_slice(other)`
    .ok { buffer := a.buffer.take a.numElements ++ other ++ a.buffer.drop (a.numElements + other.length),
          numElements := a.numElements + other.length }
  else .panic "util.rs:146 slice index out of range"

/-- `FromIterator` (util.rs:113-121): `push(x).unwrap()` for every element -/
def fromIter (n : Nat) : List UInt8 → BufRes ArrayBuf
  | xs => go (new n) xs
where
  go (a : ArrayBuf) : List UInt8 → BufRes ArrayBuf
    | [] => .ok a
    | x :: xs =>
      match a.push x with
      | .ok a' => go a' xs
      | .oom => .panic "util.rs:117 unwrap on OutOfMemory"
      | .panic s => .panic s

end ArrayBuf

/-! ### The ideal bounded byte vector (specification for C18) -/

structure IdealVec where
  cap : Nat
  data : List UInt8
  deriving Repr, DecidableEq

namespace IdealVec
def new (n : Nat) : IdealVec := { cap := n, data := [] }
def push (v : IdealVec) (b : UInt8) : Option IdealVec :=
  if v.data.length + 1 ≤ v.cap then some { v with data := v.data ++ [b] } else none
def extend (v : IdealVec) (s : List UInt8) : Option IdealVec :=
  if v.data.length + s.length ≤ v.cap then some { v with data := v.data ++ s } else none
def truncate (v : IdealVec) (k : Nat) : IdealVec := { v with data := v.data.take k }
def clear (v : IdealVec) : IdealVec := { v with data := [] }
end IdealVec

/-! ### Abstract buffer used by the codec models -/

structure Buf where
  cap : Option Nat          -- `none` = Vec<u8>, `some n` = ArrayBuf<n>
  rdata : List UInt8        -- contents, newest first
  deriving Repr, DecidableEq

namespace Buf

def new (cap : Option Nat) : Buf := { cap := cap, rdata := [] }

/-- visible contents, oldest first (`&buf[..]`) -/
def data (b : Buf) : List UInt8 := b.rdata.reverse

def len (b : Buf) : Nat := b.rdata.length

def isFull (b : Buf) : Bool :=
  match b.cap with
  | none => false
  | some c => b.rdata.length ≥ c

/-- `Buffer::push`: `none` = `Err(OutOfMemory)` -/
def push (b : Buf) (x : UInt8) : Option Buf :=
  if b.isFull then none else some { b with rdata := x :: b.rdata }

/-- room for `n` more bytes? -/
def fits (b : Buf) (n : Nat) : Bool :=
  match b.cap with
  | none => true
  | some c => b.rdata.length + n ≤ c

/-- `Buffer::extend_from_slice`: all or nothing -/
def extend (b : Buf) (s : List UInt8) : Option Buf :=
  if b.fits s.length then some { b with rdata := s.reverse ++ b.rdata } else none

def clear (b : Buf) : Buf := { b with rdata := [] }

def truncate (b : Buf) (k : Nat) : Buf := { b with rdata := b.rdata.drop (b.rdata.length - k) }

end Buf

end Sml

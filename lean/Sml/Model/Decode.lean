import Sml.Model.Crc
import Sml.Model.Buf
/-
  Push decoder for SML transport v1: `NonOwningDecoder` + `Decoder<B>` (src/transport/decode.rs).

  `&mut self` methods return the new state.  Every place where the Rust code can panic
  (checked arithmetic on u8/usize in a build with overflow checks, array indexing,
  the `borrow_buf` guard) is an explicit `Res.panic site`.
  Counters: u8 fields are `Nat` with an explicit overflow check at every increment;
  usize fields (`raw_msg_len`, `num_discarded_bytes`) are `Nat` (64-bit usize cannot overflow
  on a stream shorter than 2^64 bytes).
-/
namespace Sml

/-- `DecodeErr` (decode.rs:14-32) -/
inductive DecErr where
  | discarded (n : Nat)
  | invalidEsc (a b c d : UInt8)
  | oom
  | invalidMsg (readCrc calcCrc : UInt16) (misaligned : Bool) (pad : UInt8) (badPad : Bool)
  deriving Repr, DecidableEq

/-- the `[u8; 4]` escape payload -/
structure Quad where
  a : UInt8
  b : UInt8
  c : UInt8
  d : UInt8
  deriving Repr, DecidableEq

namespace Quad
def zero : Quad := ⟨0, 0, 0, 0⟩
def toList (q : Quad) : List UInt8 := [q.a, q.b, q.c, q.d]
/-- `payload[i] = x`; `none` = index out of bounds -/
def set (q : Quad) (i : Nat) (x : UInt8) : Option Quad :=
  match i with
  | 0 => some { q with a := x }
  | 1 => some { q with b := x }
  | 2 => some { q with c := x }
  | 3 => some { q with d := x }
  | _ => none
def get (q : Quad) (i : Nat) : UInt8 :=
  match i with
  | 0 => q.a | 1 => q.b | 2 => q.c | _ => q.d
/-- `payload.copy_within(k.., 0)` for k ∈ 1..3 -/
def shift (q : Quad) (k : Nat) : Quad :=
  match k with
  | 1 => ⟨q.b, q.c, q.d, q.d⟩
  | 2 => ⟨q.c, q.d, q.c, q.d⟩
  | 3 => ⟨q.d, q.b, q.c, q.d⟩
  | _ => q
end Quad

/-- `DecodeState` (decode.rs:44-56) -/
inductive DState where
  | look (disc : Nat) (init : Nat)
  | normal
  | escChars (n : Nat)
  | escPayload (step : Nat) (payload : Quad)
  | done
  deriving Repr, DecidableEq

/-- `NonOwningDecoder` + the buffer it works on -/
structure Dec where
  raw : Nat            -- raw_msg_len
  crc : UInt16         -- running digest
  st : DState
  zc : Nat             -- zero_cache (u8)
  buf : Buf
  deriving Repr, DecidableEq

/-- result of `_push_byte` -/
inductive Res where
  | more                     -- Ok(false)
  | ready                    -- Ok(true)
  | err (e : DecErr)
  | panic (site : String)
  deriving Repr, DecidableEq

def START : List UInt8 := [0x1b, 0x1b, 0x1b, 0x1b, 0x01, 0x01, 0x01, 0x01]

def startCrc : UInt16 := crcUpdate crcInit START

namespace Dec

/-- `Decoder::from_buf` / `new` (decode.rs:95-106, 153-165) -/
def fresh (cap : Option Nat) : Dec :=
  { raw := 0, crc := crcInit, st := .look 0 0, zc := 0, buf := Buf.new cap }

/-- `Decoder::from_buf(buf)` (decode.rs:100-106): the caller's buffer is cleared, the decoder is new -/
def fromBuf (b : Buf) : Dec :=
  { raw := 0, crc := crcInit, st := .look 0 0, zc := 0, buf := b.clear }

/-- `reset` (decode.rs:394-407): returns the number of discarded bytes -/
def reset (d : Dec) : Dec × Nat :=
  let n := match d.st with
    | .done => 0
    | _ => d.raw
  ({ d with st := .look 0 0, buf := d.buf.clear, raw := 0, zc := 0 }, n)

/-- `finalize` (decode.rs:379-391) -/
def finalize (d : Dec) : Dec × Option DecErr :=
  let res := match d.st with
    | .look 0 0 => none
    | .done => none
    | _ => some (DecErr.discarded d.raw)
  ((d.reset).1, res)

/-- `push_inner` (decode.rs:435-441): `none` = buffer full (the caller resets and reports OOM) -/
def pushInner (d : Dec) (b : UInt8) : Option Dec :=
  match d.buf.push b with
  | some buf => some { d with buf := buf }
  | none => none

/-- `for _ in 0..n { push_inner(0) }` -/
def pushZeros (d : Dec) : Nat → Option Dec
  | 0 => some d
  | n + 1 =>
    match d.pushInner 0 with
    | some d' => pushZeros d' n
    | none => none

/-- `flush` (decode.rs:410-416) -/
def flush (d : Dec) : Option Dec :=
  match d.pushZeros d.zc with
  | some d' => some { d' with zc := 0 }
  | none => none

/-- `push` (decode.rs:418-433); `Except`: `.error true` = u8 overflow panic, `.error false` = OOM -/
inductive PushRes where
  | ok (d : Dec)
  | oom
  | panic (site : String)

def pushData (d : Dec) (b : UInt8) : PushRes :=
  if b = 0 then
    if d.zc ≤ 3 then
      if d.zc + 1 > 255 then .panic "decode.rs:421 zero_cache overflow"
      else .ok { d with zc := d.zc + 1 }
    else
      match d.pushInner b with
      | some d' => .ok d'
      | none => .oom
  else
    match d.flush with
    | none => .oom
    | some d' =>
      match d'.pushInner b with
      | some d'' => .ok d''
      | none => .oom

/-- `for _ in 0..n { self.push(buf, x)? }` -/
def pushRep (d : Dec) (x : UInt8) : Nat → PushRes
  | 0 => .ok d
  | n + 1 =>
    match d.pushData x with
    | .ok d' => pushRep d' x n
    | r => r

/-- `for b in bs { self.push(buf, b)? }` -/
def pushList (d : Dec) : List UInt8 → PushRes
  | [] => .ok d
  | b :: bs =>
    match d.pushData b with
    | .ok d' => pushList d' bs
    | r => r

/-- turn the result of a data push into the result of `push_byte`:
    on OOM the decoder has been reset (decode.rs:436-439) -/
def afterPush (d0 : Dec) (r : PushRes) (k : Dec → Dec × Res) : Dec × Res :=
  match r with
  | .ok d => k d
  | .oom => ((d0.reset).1, .err .oom)
  | .panic s => (d0, .panic s)

/-- one byte in state `LookingForMessageStart` (decode.rs:180-210, after the matcher fix) -/
def pushLook (d : Dec) (disc init : Nat) (b : UInt8) : Dec × Res :=
  if (b = 0x1b ∧ init < 4) ∨ (b = 0x01 ∧ init ≥ 4) then
    if init + 1 > 255 then (d, .panic "decode.rs:186 num_init_seq_bytes overflow")
    else
      let init := init + 1
      if init = 8 then
        let d := { d with st := .normal, raw := 8, crc := startCrc }
        if disc > 0 then (d, .err (.discarded disc)) else (d, .more)
      else ({ d with st := .look disc init }, .more)
  else
    let keep : Nat := if b = 0x1b then (if init = 4 then 4 else 1) else 0
    if 1 + init < keep then (d, .panic "decode.rs:196 subtraction overflow")
    else
      -- a `keep` of 4 or 1 can never complete the start sequence: `init = 8` is not reachable here
      ({ d with st := .look (disc + (1 + init - keep)) keep }, .more)

/-- end sequence `1a pad crc crc` (decode.rs:270-321) -/
def pushEnd (d : Dec) (q : Quad) : Dec × Res :=
  let pad := q.b
  let readCrc := ofLe16 q.c q.d
  let crc := crcUpdate d.crc [q.a, q.b]
  let calcCrc := crcFinal crc
  -- `mem::swap` leaves a fresh digest in `self.crc`
  let d := { d with crc := crcInit }
  let misaligned := d.raw % 4 != 0
  let padTooLarge := pad > 3
  let padLargerThanMsg := d.raw < pad.toNat + 16
  let badPad := pad.toNat > d.zc
  if readCrc != calcCrc || misaligned || padTooLarge || padLargerThanMsg || badPad then
    ((d.reset).1, .err (.invalidMsg readCrc calcCrc misaligned pad badPad))
  else if d.zc < pad.toNat then (d, .panic "decode.rs:315 zero_cache underflow")
  else
    let d := { d with zc := d.zc - pad.toNat }
    match d.flush with
    | none => ((d.reset).1, .err .oom)
    | some d => ({ d with st := .done }, .ready)

/-- fourth payload byte of an escape sequence has arrived (decode.rs:244-366) -/
def pushEscComplete (d : Dec) (q : Quad) : Dec × Res :=
  if q = ⟨0x1b, 0x1b, 0x1b, 0x1b⟩ then
    let d := { d with crc := crcUpdate d.crc q.toList }
    afterPush d (d.pushList q.toList) fun d => ({ d with st := .normal }, .more)
  else if q = ⟨0x01, 0x01, 0x01, 0x01⟩ then
    if d.raw < 8 then (d, .panic "decode.rs:261 subtraction overflow")
    else
      let ignored := d.raw - 8
      ({ d with raw := 8, zc := 0, buf := d.buf.clear, crc := startCrc, st := .normal },
        .err (.discarded ignored))
  else if q.a = 0x1a then pushEnd d q
  else
    let k := (4 - d.raw % 4) % 4
    if k > 0 ∧ ((q.toList.take k).all (· = 0x1b)) ∧ q.get k = 0x1a then
      let d := { d with crc := crcUpdate d.crc (q.toList.take k) }
      afterPush d (d.pushRep 0x1b k) fun d =>
        ({ d with st := .escPayload (4 - k) (q.shift k) }, .more)
    else
      ((d.reset).1, .err (.invalidEsc q.a q.b q.c q.d))

/-- `NonOwningDecoder::push_byte` (decode.rs:176-376) -/
def pushByte (d : Dec) (b : UInt8) : Dec × Res :=
  -- `Done => { self.reset(buf); return self.push_byte(buf, b) }` (decode.rs:369-373), unfolded once
  let d := match d.st with
    | .done => (d.reset).1
    | _ => d
  let d := { d with raw := d.raw + 1 }
  match d.st with
  | .look disc init => pushLook d disc init b
  | .normal =>
    let d := { d with crc := crcByte d.crc b }
    if b = 0x1b then ({ d with st := .escChars 1 }, .more)
    else afterPush d (d.pushData b) fun d => (d, .more)
  | .escChars n =>
    let d := { d with crc := crcByte d.crc b }
    if b ≠ 0x1b then
      afterPush d (d.pushRep 0x1b n) fun d' =>
        afterPush d (d'.pushData b) fun d'' => ({ d'' with st := .normal }, .more)
    else if n = 3 then ({ d with st := .escPayload 0 Quad.zero }, .more)
    else if n + 1 > 255 then (d, .panic "decode.rs:233 overflow")
    else ({ d with st := .escChars (n + 1) }, .more)
  | .escPayload step q =>
    match q.set step b with
    | none => (d, .panic "decode.rs:237 index out of bounds")
    | some q =>
      if step < 3 then ({ d with st := .escPayload (step + 1) q }, .more)
      else pushEscComplete d q
  | .done => (d, .panic "decode.rs:369 unreachable: Done after reset")

def isDone (d : Dec) : Bool := d.st = .done

end Dec

/-! ### `Decoder<B>::push_byte` as seen by a caller -/

/-- what a call of `Decoder::push_byte` / `finalize` / `reset` reports -/
inductive Out where
  | none                         -- Ok(None)
  | msg (m : List UInt8)         -- Ok(Some(payload))
  | err (e : DecErr)             -- Err(e)
  | panic (site : String)
  deriving Repr, DecidableEq

/-- `Decoder::borrow_buf` (decode.rs:130-135) -/
def Dec.borrowBuf (d : Dec) : Out :=
  if d.isDone then .msg d.buf.data
  else .panic "decode.rs:132 borrow_buf outside Done"

/-- `Decoder::push_byte` (decode.rs:110-113) -/
def Dec.push (d : Dec) (b : UInt8) : Dec × Out :=
  match d.pushByte b with
  | (d', .more) => (d', .none)
  | (d', .ready) => (d', d'.borrowBuf)
  | (d', .err e) => (d', .err e)
  | (d', .panic s) => (d', .panic s)

end Sml

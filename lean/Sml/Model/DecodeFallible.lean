import Sml.Model.Decode
import Sml.Model.Frontends
/-
  The push decoder of `Sml/Model/Decode.lean` (`Dec`) over a growable buffer (`B = Vec<u8>`)
  whose allocation may FAIL.

  `impl Buffer for Vec<u8>` (src/util.rs:44-73): `push` calls `try_reserve(1)` and maps an
  allocation failure to `Err(OutOfMemory)`.  `Dec` with `cap = none` assumes that this never
  happens.  Here every call of `buf.push(b)` (the only fallible buffer operation the decoder uses,
  decode.rs:444 in `push_inner`) first consults an *allocation oracle*:

      state `{ d : Dec, alloc : List Bool }`

  The head of `alloc` decides whether the next `buf.push` succeeds (`true`) or returns
  `Err(OutOfMemory)` (`false`); it is consumed by the attempt.  The empty list means "succeeds from
  now on".  The oracle is global state of the allocator: `reset`, `finalize`, `Decoder::new()` and
  `Decoder::from_buf` neither consult nor change it (`Vec::new()`, `Vec::clear()` do not allocate).
  Since the oracle is an arbitrary list, a failure can happen at an arbitrary push, any number of
  times, and pushes after a failure can succeed again.

  The file is a transcription of `Decode.lean` (function by function, like `DecodeArr.lean`):
  every function that (transitively) pushes into the buffer threads the oracle; the functions that
  never push (`pushLook`, `reset`, `finalize`, `borrowBuf`) are those of `Dec`.
  As in `DecodeArr.lean`, `push_inner` (decode.rs:443-449) resets the decoder *at the moment the
  buffer push fails*; `PushResF.oom` carries that already reset decoder and the rest of the oracle.

  The buffer inside `d` keeps its `cap` field, so the same model also describes a bounded buffer
  whose pushes fail spuriously (oracle says `true` and the buffer is full: `Err(OutOfMemory)` as in
  `Dec`).  `DecF.fresh alloc` is the `Vec<u8>` case `cap = none`.
-/
namespace Sml

/-- `Decoder<Vec<u8>>` + the allocation oracle -/
structure DecF where
  d : Dec
  /-- answers of the allocator to the following `buf.push` attempts; `[]` = always succeeds -/
  alloc : List Bool
  deriving Repr, DecidableEq

namespace DecF

/-- `Decoder::<Vec<u8>>::new()` in a world whose allocator answers `alloc` -/
def fresh (alloc : List Bool) : DecF := { d := Dec.fresh none, alloc := alloc }

/-- the same over a buffer of capacity `cap` (`none` = `Vec<u8>`) -/
def freshCap (cap : Option Nat) (alloc : List Bool) : DecF := { d := Dec.fresh cap, alloc := alloc }

/-- consume one answer of the oracle: (does the next allocation succeed?, remaining oracle) -/
def ask : List Bool → Bool × List Bool
  | [] => (true, [])
  | a :: rest => (a, rest)

/-- `reset` (decode.rs:394-407): `buf.clear()` does not allocate -/
def reset (f : DecF) : DecF × Nat :=
  ({ f with d := (f.d.reset).1 }, (f.d.reset).2)

/-- `finalize` (decode.rs:379-391) -/
def finalize (f : DecF) : DecF × Option DecErr :=
  ({ f with d := (f.d.finalize).1 }, (f.d.finalize).2)

/-- result of the data-push helpers (`push_inner`, `flush`, `push`) -/
inductive PushResF where
  | ok (f : DecF)
  /-- `Err(OutOfMemory)`; `f` is the decoder after the `self.reset(buf)` of `push_inner`, with the
      oracle that remains -/
  | oom (f : DecF)
  | panic (site : String)

/-- `push_inner` (decode.rs:443-449): `buf.push(b)` is `try_reserve(1)` + `Vec::push` -/
def pushInner (f : DecF) (b : UInt8) : PushResF :=
  match ask f.alloc with
  | (true, rest) =>
    -- the allocation succeeded; `Buf.push` itself never fails for `cap = none`
    match f.d.buf.push b with
    | some buf => .ok { d := { f.d with buf := buf }, alloc := rest }
    | Option.none => .oom { d := (f.d.reset).1, alloc := rest }
  | (false, rest) => .oom { d := (f.d.reset).1, alloc := rest }

/-- `for _ in 0..n { push_inner(0)? }` -/
def pushZeros (f : DecF) : Nat → PushResF
  | 0 => .ok f
  | n + 1 =>
    match f.pushInner 0 with
    | .ok f' => pushZeros f' n
    | r => r

/-- `flush` (decode.rs:410-416) -/
def flush (f : DecF) : PushResF :=
  match f.pushZeros f.d.zc with
  | .ok f' => .ok { f' with d := { f'.d with zc := 0 } }
  | r => r

/-- `push` (decode.rs:418-433) -/
def pushData (f : DecF) (b : UInt8) : PushResF :=
  if b = 0 then
    if f.d.zc ≤ 3 then
      if f.d.zc + 1 > 255 then .panic "decode.rs:421 zero_cache overflow"
      else .ok { f with d := { f.d with zc := f.d.zc + 1 } }
    else f.pushInner b
  else
    match f.flush with
    | .ok f' => f'.pushInner b
    | r => r

/-- `for _ in 0..n { self.push(buf, x)? }` -/
def pushRep (f : DecF) (x : UInt8) : Nat → PushResF
  | 0 => .ok f
  | n + 1 =>
    match f.pushData x with
    | .ok f' => pushRep f' x n
    | r => r

/-- `for b in bs { self.push(buf, b)? }` -/
def pushList (f : DecF) : List UInt8 → PushResF
  | [] => .ok f
  | b :: bs =>
    match f.pushData b with
    | .ok f' => pushList f' bs
    | r => r

/-- turn the result of a data push into the result of `push_byte` (the `?` operator):
    on OOM the decoder has already been reset by `push_inner` -/
def afterPush (f0 : DecF) (r : PushResF) (k : DecF → DecF × Res) : DecF × Res :=
  match r with
  | .ok f => k f
  | .oom f => (f, .err .oom)
  | .panic s => (f0, .panic s)

/-- one byte in state `LookingForMessageStart` (decode.rs:180-210): no buffer access -/
def pushLook (f : DecF) (disc init : Nat) (b : UInt8) : DecF × Res :=
  ({ f with d := (Dec.pushLook f.d disc init b).1 }, (Dec.pushLook f.d disc init b).2)

/-- end sequence `1a pad crc crc` (decode.rs:270-321) -/
def pushEnd (f : DecF) (q : Quad) : DecF × Res :=
  let d := f.d
  let pad := q.b
  let readCrc := ofLe16 q.c q.d
  let crc := crcUpdate d.crc [q.a, q.b]
  let calcCrc := crcFinal crc
  -- `mem::swap` leaves a fresh digest in `self.crc`
  let d := { d with crc := crcInit }
  let misaligned := d.raw % 4 != 0
  let padTooLarge := pad > 3
  let padLargerThanMsg := d.raw < pad.toNat + 16
  let badPad := pad.toNat > d.zc
  if readCrc != calcCrc || misaligned || padTooLarge || padLargerThanMsg || badPad then
    ({ f with d := (d.reset).1 }, .err (.invalidMsg readCrc calcCrc misaligned pad badPad))
  else if d.zc < pad.toNat then ({ f with d := d }, .panic "decode.rs:315 zero_cache underflow")
  else
    let f1 : DecF := { f with d := { d with zc := d.zc - pad.toNat } }
    afterPush f1 f1.flush fun f' => ({ f' with d := { f'.d with st := .done } }, .ready)

/-- fourth payload byte of an escape sequence has arrived (decode.rs:244-366) -/
def pushEscComplete (f : DecF) (q : Quad) : DecF × Res :=
  let d := f.d
  if q = ⟨0x1b, 0x1b, 0x1b, 0x1b⟩ then
    let f1 : DecF := { f with d := { d with crc := crcUpdate d.crc q.toList } }
    afterPush f1 (f1.pushList q.toList) fun f' => ({ f' with d := { f'.d with st := .normal } }, .more)
  else if q = ⟨0x01, 0x01, 0x01, 0x01⟩ then
    if d.raw < 8 then (f, .panic "decode.rs:261 subtraction overflow")
    else
      let ignored := d.raw - 8
      ({ f with d := { d with raw := 8, zc := 0, buf := d.buf.clear, crc := startCrc, st := .normal } },
        .err (.discarded ignored))
  else if q.a = 0x1a then pushEnd f q
  else
    let k := (4 - d.raw % 4) % 4
    if k > 0 ∧ ((q.toList.take k).all (· = 0x1b)) ∧ q.get k = 0x1a then
      let f1 : DecF := { f with d := { d with crc := crcUpdate d.crc (q.toList.take k) } }
      afterPush f1 (f1.pushRep 0x1b k) fun f' =>
        ({ f' with d := { f'.d with st := .escPayload (4 - k) (q.shift k) } }, .more)
    else
      ({ f with d := (d.reset).1 }, .err (.invalidEsc q.a q.b q.c q.d))

/-- `NonOwningDecoder::push_byte` (decode.rs:176-376) -/
def pushByte (f : DecF) (b : UInt8) : DecF × Res :=
  -- `Done => { self.reset(buf); return self.push_byte(buf, b) }` (decode.rs:369-373), unfolded once
  let d := match f.d.st with
    | .done => (f.d.reset).1
    | _ => f.d
  let d := { d with raw := d.raw + 1 }
  match d.st with
  | .look disc init => pushLook { f with d := d } disc init b
  | .normal =>
    let d := { d with crc := crcByte d.crc b }
    if b = 0x1b then ({ f with d := { d with st := .escChars 1 } }, .more)
    else
      let f1 : DecF := { f with d := d }
      afterPush f1 (f1.pushData b) fun f' => (f', .more)
  | .escChars n =>
    let d := { d with crc := crcByte d.crc b }
    if b ≠ 0x1b then
      let f1 : DecF := { f with d := d }
      afterPush f1 (f1.pushRep 0x1b n) fun f' =>
        afterPush { f' with d := d } (f'.pushData b) fun f'' =>
          ({ f'' with d := { f''.d with st := .normal } }, .more)
    else if n = 3 then ({ f with d := { d with st := .escPayload 0 Quad.zero } }, .more)
    else if n + 1 > 255 then ({ f with d := d }, .panic "decode.rs:233 overflow")
    else ({ f with d := { d with st := .escChars (n + 1) } }, .more)
  | .escPayload step q =>
    match q.set step b with
    | Option.none => ({ f with d := d }, .panic "decode.rs:237 index out of bounds")
    | some q =>
      if step < 3 then ({ f with d := { d with st := .escPayload (step + 1) q } }, .more)
      else pushEscComplete { f with d := d } q
  | .done => ({ f with d := d }, .panic "decode.rs:369 unreachable: Done after reset")

/-- `Decoder::push_byte` (decode.rs:110-113), including `borrow_buf` -/
def push (f : DecF) (b : UInt8) : DecF × Out :=
  match f.pushByte b with
  | (f', .more) => (f', .none)
  | (f', .ready) => (f', f'.d.borrowBuf)
  | (f', .err e) => (f', .err e)
  | (f', .panic s) => (f', .panic s)

/-- one operation of a history (`Op` of `Frontends.lean`).  `Decoder::new()` (`Vec::new()`) and
    `Decoder::from_buf(buf)` (`buf.clear()`) do not allocate: the oracle is untouched. -/
def step (f : DecF) : Op → DecF × OpOut
  | .push b => let (f', o) := f.push b; (f', .out o)
  | .fin => let (f', e) := f.finalize; (f', .fin e)
  | .reset => let (f', n) := f.reset; (f', .reset n)
  | .new => ({ f with d := Dec.fresh f.d.buf.cap }, .new)
  | .fromBuf stale =>
    ({ f with d := Dec.fromBuf { cap := f.d.buf.cap, rdata := stale.reverse } }, .fromBuf)

def run (f : DecF) : List Op → DecF × List OpOut
  | [] => (f, [])
  | op :: ops =>
    let (f', o) := f.step op
    let (f'', os) := DecF.run f' ops
    (f'', o :: os)

/-- feed bytes, collect one `Out` per byte -/
def pushAll (f : DecF) : List UInt8 → DecF × List Out
  | [] => (f, [])
  | b :: bs =>
    let (f', o) := f.push b
    let (f'', os) := DecF.pushAll f' bs
    (f'', o :: os)

end DecF

end Sml

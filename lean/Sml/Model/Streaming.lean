import Sml.Model.Parser
import Sml.Model.Complete
/-
  The streaming parser (src/parser/streaming.rs).
-/
namespace Sml

structure GetListResponseStart where
  clientId : Option Bytes
  serverId : Bytes
  listName : Option Bytes
  actSensorTime : Option Time
  numVals : Nat
  deriving Repr, DecidableEq

/-- `GetListResponseStart::parse_with_tlf` (streaming.rs:235-253) -/
def parseGlrStartWith (input : Bytes) (_tlf : Tlf) : PRes GetListResponseStart :=
  match parseOpt parseOctet input with
  | .error e => .error e
  | .ok (clientId, input) =>
  match parseOctet input with
  | .error e => .error e
  | .ok (serverId, input) =>
  match parseOpt parseOctet input with
  | .error e => .error e
  | .ok (listName, input) =>
  match parseOpt parseTime input with
  | .error e => .error e
  | .ok (actSensorTime, input) =>
  match parseTlf input with
  | .error e => .error e
  | .ok (tlf, input) =>
    if tlf.ty ≠ .listOf then .error .tlfMismatch
    else .ok ({ clientId, serverId, listName, actSensorTime, numVals := tlf.len }, input)

def parseGlrStart : Bytes → PRes GetListResponseStart := parseViaTlf (listCheck 7) parseGlrStartWith

structure GetListResponseEnd where
  listSignature : Option Bytes
  actGatewayTime : Option Time
  deriving Repr, DecidableEq

/-- `GetListResponseEnd::parse` (streaming.rs:283-293) -/
def parseGlrEnd (input : Bytes) : PRes GetListResponseEnd :=
  match parseOpt parseOctet input with
  | .error e => .error e
  | .ok (listSignature, input) =>
  match parseOpt parseTime input with
  | .error e => .error e
  | .ok (actGatewayTime, input) => .ok ({ listSignature, actGatewayTime }, input)

inductive SBody where
  | openResponse (x : OpenResponse)
  | closeResponse (x : CloseResponse)
  | getListResponse (x : GetListResponseStart)
  deriving Repr, DecidableEq

/-- streaming `MessageBody::parse_with_tlf` (streaming.rs:194-212) -/
def parseSBodyWith (input : Bytes) (_tlf : Tlf) : PRes SBody :=
  match parseInt false 4 input with
  | .error e => .error e
  | .ok (tag, input) =>
    if tag = 0x0101 then mapRes .openResponse (parseOpenResponse input)
    else if tag = 0x0201 then mapRes .closeResponse (parseCloseResponse input)
    else if tag = 0x0701 then mapRes .getListResponse (parseGlrStart input)
    else .error .unexpectedVariant

def parseSBody : Bytes → PRes SBody := parseViaTlf (listCheck 2) parseSBodyWith

structure MessageStart where
  transactionId : Bytes
  groupNo : Int
  abortOnError : Int
  messageBody : SBody
  deriving Repr, DecidableEq

/-- `MessageStart::parse` (streaming.rs:133-152) -/
def parseMessageStart (input : Bytes) : PRes MessageStart :=
  match parseMsgHeader input with
  | .error e => .error e
  | .ok ((transactionId, groupNo, abortOnError), input) =>
  match parseSBody input with
  | .error e => .error e
  | .ok (messageBody, input) => .ok ({ transactionId, groupNo, abortOnError, messageBody }, input)

inductive ParseEvent where
  | messageStart (m : MessageStart)
  | getListResponseEnd (e : GetListResponseEnd)
  | listEntry (e : ListEntry)
  deriving Repr, DecidableEq

/-- `Parser<'i>` (streaming.rs:12-16); `pending` is the u64 countdown -/
structure SParser where
  input : Bytes
  msgInput : Bytes
  pending : Nat
  deriving Repr, DecidableEq

namespace SParser

def new (input : Bytes) : SParser := { input := input, msgInput := [], pending := 0 }

def u64Max : Nat := 18446744073709551615

/-- `parse_next` when `pending_list_entries == 0` (streaming.rs:34-48) -/
def parseNextStart (p : SParser) : SParser × Except PErr (Option ParseEvent) :=
  if p.input.isEmpty then (p, .ok none)
  else
    let p := { p with msgInput := p.input }
    match parseMessageStart p.input with
    | .error e => (p, .error e)
    | .ok (msg, input) =>
      let p := { p with input := input }
      match msg.messageBody with
      | .getListResponse glr =>
        if glr.numVals + 2 > u64Max then (p, .error (.panic "streaming.rs:44 overflow"))
        else ({ p with pending := glr.numVals + 2 }, .ok (some (.messageStart msg)))
      | _ => ({ p with pending := 1 }, .ok (some (.messageStart msg)))

/-- `parse_next` (streaming.rs:33-82) -/
def parseNext (p : SParser) : SParser × Except PErr (Option ParseEvent) :=
  if p.pending = 0 then parseNextStart p
  else if p.pending = 1 then
    match parseMsgTrailer p.msgInput p.input with
    -- (on a CRC mismatch `self.input` has already been advanced; unobservable, because the only
    --  caller `Iterator::next` empties `input` on every error)
    | .error e => (p, .error e)
    | .ok (_, input) =>
      -- `self.pending_list_entries = 0; return self.parse_next()`
      parseNextStart { p with input := input, pending := 0 }
  else if p.pending = 2 then
    match parseGlrEnd p.input with
    | .error e => (p, .error e)
    | .ok (glre, input) => ({ p with input := input, pending := 1 }, .ok (some (.getListResponseEnd glre)))
  else
    match parseListEntry p.input with
    | .error e => (p, .error e)
    | .ok (le, input) => ({ p with input := input, pending := p.pending - 1 }, .ok (some (.listEntry le)))

/-- one item of the iterator -/
inductive SItem where
  | ev (e : ParseEvent)
  | err (e : PErr)
  deriving Repr, DecidableEq

/-- `Iterator::next` (streaming.rs:87-101, after the fix) -/
def next (p : SParser) : SParser × Option SItem :=
  match p.parseNext with
  | (p', .error e) => ({ p' with input := [], pending := 0 }, some (.err e))
  | (p', .ok none) => (p', none)
  | (p', .ok (some x)) => (p', some (.ev x))

/-- call `next` `n` times -/
def take (p : SParser) : Nat → SParser × List (Option SItem)
  | 0 => (p, [])
  | n + 1 =>
    let (p', r) := p.next
    let (p'', rs) := take p' n
    (p'', r :: rs)

/-- iterate until the first `None` or error, with at most `fuel` calls (`for x in parser`) -/
def collect (p : SParser) : Nat → List SItem
  | 0 => []
  | fuel + 1 =>
    match p.next with
    | (_, none) => []
    | (_, some (.err e)) => [.err e]
    | (p', some (.ev x)) => .ev x :: collect p' fuel

end SParser

end Sml

import Sml.Model.Crc
import Sml.Model.Buf
import Sml.Model.Decode
/-
  Encoders for SML transport v1 (src/transport/encode.rs).

  * `encodeBuf`   = `encode::<B>` (encode.rs:176-212), the buffer encoder.
  * `Enc` / `Enc.next` = `Encoder<I>` and its `Iterator::next` (encode.rs:30-134).
    `next_from_state` (a bounded self-recursion) is unfolded into the helper functions below.
    `Padding` is a wrapping u8 as in the code.
-/
namespace Sml

/-! ### buffer encoder -/

/-- result of `encode::<B>` -/
inductive EncRes where
  | ok (bytes : List UInt8)
  | oom
  | panic (site : String)
  deriving Repr, DecidableEq

/-- the loop `for b in iter` of encode.rs:186-200; `none` = OutOfMemory -/
def encodeLoop (buf : Buf) (num1b : Nat) : List UInt8 → Option Buf
  | [] => some buf
  | b :: bs =>
    let num1b := if b = 0x1b then num1b + 1 else 0
    match buf.push b with
    | none => none
    | some buf =>
      if num1b = 4 then
        match buf.extend [0x1b, 0x1b, 0x1b, 0x1b] with
        | none => none
        | some buf => encodeLoop buf 0 bs
      else encodeLoop buf num1b bs

/-- `encode::<B>(payload)` with `B` of capacity `cap` -/
def encodeBuf (cap : Option Nat) (p : List UInt8) : EncRes :=
  match (Buf.new cap).extend START with
  | none => .oom
  | some buf =>
    match encodeLoop buf 0 p with
    | none => .oom
    | some buf =>
      let k := (4 - buf.len % 4) % 4
      -- `&[0x0; 3][..num_padding_bytes]` (encode.rs:203): the slice index panics if it exceeds 3
      if k > 3 then .panic "encode.rs:203 slice end out of range" else
      match buf.extend (([0, 0, 0] : List UInt8).take k) with
      | none => .oom
      | some buf =>
        match buf.extend [0x1b, 0x1b, 0x1b, 0x1b, 0x1a, UInt8.ofNat k] with
        | none => .oom
        | some buf =>
          let crc := crc16 buf.data
          match buf.extend (le16 crc) with
          | none => .oom
          | some buf => .ok buf.data

/-! ### iterator encoder -/

/-- `EncoderState` (encode.rs:22-27) -/
inductive EState where
  | init (n : Nat)
  | look (n : Nat)       -- LookingForEscape
  | esc (n : Nat)        -- HandlingEscape
  | fin (n : Int)        -- End(i8)
  deriving Repr, DecidableEq

structure Enc where
  st : EState
  crc : UInt16
  padding : UInt8          -- Padding(u8), wrapping
  rest : List UInt8        -- the underlying iterator
  deriving Repr, DecidableEq

/-- result of one `next()` call -/
inductive EOut where
  | byte (b : UInt8)
  | none
  | panic (site : String)
  deriving Repr, DecidableEq

namespace Enc

/-- `Encoder::new` (encode.rs:45-54) -/
def new (p : List UInt8) : Enc :=
  { st := .init 0, crc := startCrc, padding := 0, rest := p }

/-- `Padding::get` -/
def padGet (e : Enc) : UInt8 := e.padding &&& 0x3

/-- the `End(n)` arm (encode.rs:113-129) -/
def nextFin (e : Enc) (n : Int) : Enc × EOut :=
  if n < 0 then ({ e with st := .fin (n + 1) }, .byte 0x00)
  else if n < 4 then ({ e with st := .fin (n + 1) }, .byte 0x1b)
  else if n = 4 then ({ e with st := .fin (n + 1) }, .byte 0x1a)
  else if n = 5 then ({ e with st := .fin (n + 1) }, .byte e.padGet)
  else if n < 8 then
    -- `self.crc.clone().finalize().to_le_bytes()[(n - 6) as usize]`: indexing a `[u8; 2]`
    -- panics for an index ≥ 2 (`(n - 6) as usize` of a negative `n - 6` is huge)
    match (le16 (crcFinal e.crc))[(n - 6).toNat]? with
    | some b => ({ e with st := .fin (n + 1) }, .byte b)
    | Option.none => (e, .panic "encode.rs:121 index out of bounds")
  else if n = 8 then ({ e with st := .fin 8 }, .none)
  else (e, .panic "encode.rs:126 unreachable")

/-- the `LookingForEscape(n) if n < 4` arm (encode.rs:86-102) -/
def nextLook (e : Enc) (n : Nat) : Enc × EOut :=
  match e.rest with
  | b :: rest =>
    -- read_from_iter bumps the padding counter
    let e := { e with rest := rest, padding := e.padding - 1, crc := crcByte e.crc b }
    ({ e with st := .look ((n + 1) * (if b = 0x1b then 1 else 0)) }, .byte b)
  | [] =>
    let pad := e.padGet
    let crc := crcUpdate e.crc (List.replicate pad.toNat 0)
    let crc := crcUpdate crc [0x1b, 0x1b, 0x1b, 0x1b, 0x1a, pad]
    nextFin { e with crc := crc } (-(pad.toNat : Int))

/-- `Iterator::next` (encode.rs:77-133) -/
def next (e : Enc) : Enc × EOut :=
  match e.st with
  | .init n =>
    if n < 4 then ({ e with st := .init (n + 1) }, .byte 0x1b)
    else if n < 8 then ({ e with st := .init (n + 1) }, .byte 0x01)
    else if n = 8 then nextLook e 0
    else (e, .panic "encode.rs:83 assert_eq")
  | .look n =>
    if n < 4 then nextLook e n
    else if n = 4 then
      -- HandlingEscape(0) emits the first 0x1b at once
      ({ e with crc := crcUpdate e.crc [0x1b, 0x1b, 0x1b, 0x1b], st := .esc 1 }, .byte 0x1b)
    else (e, .panic "encode.rs:104 assert_eq")
  | .esc n =>
    if n < 4 then ({ e with st := .esc (n + 1) }, .byte 0x1b)
    else if n = 4 then nextLook e 0
    else (e, .panic "encode.rs:110 assert_eq")
  | .fin n => nextFin e n

/-- call `next` `fuel` times, collecting the results -/
def run (e : Enc) : Nat → Enc × List EOut
  | 0 => (e, [])
  | fuel + 1 =>
    let (e', o) := e.next
    let (e'', os) := run e' fuel
    (e'', o :: os)

end Enc

end Sml

/-
  CRC-16/X.25 (a.k.a. CRC_16_IBM_SDLC): width 16, poly 0x1021 reflected (0x8408),
  init 0xFFFF, refin/refout, xorout 0xFFFF.   Mirrors `crc::Digest` as used in
  src/util.rs:5, src/transport/{encode,decode}.rs, src/parser/{complete,streaming}.rs.

  The running digest is a `UInt16`; `crcUpdate` = `Digest::update`, `crcFinal` = `Digest::finalize`.
  No theorem needs an algebraic fact about the CRC, only that it is a fold over the bytes fed.
-/
namespace Sml

@[inline] def crcBit (c : UInt16) : UInt16 :=
  if c &&& 1 != 0 then (c >>> 1) ^^^ 0x8408 else c >>> 1

def crcByte (c : UInt16) (b : UInt8) : UInt16 :=
  let c := c ^^^ b.toUInt16
  crcBit (crcBit (crcBit (crcBit (crcBit (crcBit (crcBit (crcBit c)))))))

def crcInit : UInt16 := 0xFFFF

def crcUpdate (c : UInt16) (bs : List UInt8) : UInt16 := bs.foldl crcByte c

def crcFinal (c : UInt16) : UInt16 := c ^^^ 0xFFFF

/-- `CRC_X25.checksum(bs)` -/
def crc16 (bs : List UInt8) : UInt16 := crcFinal (crcUpdate crcInit bs)

theorem crcUpdate_append (c : UInt16) (a b : List UInt8) :
    crcUpdate c (a ++ b) = crcUpdate (crcUpdate c a) b := by
  simp [crcUpdate, List.foldl_append]

@[simp] theorem crcUpdate_nil (c : UInt16) : crcUpdate c [] = c := rfl

theorem crcUpdate_cons (c : UInt16) (x : UInt8) (a : List UInt8) :
    crcUpdate c (x :: a) = crcUpdate (crcByte c x) a := rfl

/-- `u16::to_le_bytes` -/
def le16 (x : UInt16) : List UInt8 := [x.toUInt8, (x >>> 8).toUInt8]

/-- `u16::from_le_bytes([lo, hi])` -/
def ofLe16 (lo hi : UInt8) : UInt16 := lo.toUInt16 ||| (hi.toUInt16 <<< 8)

/-- `u16::swap_bytes` -/
def swap16 (x : UInt16) : UInt16 := (x <<< 8) ||| (x >>> 8)

end Sml

import Sml.Model.Crc
/-
  Shared SML parser pieces: input helpers (src/parser/mod.rs), type-length fields
  (src/parser/tlf.rs), numbers / booleans (src/parser/num.rs), octet strings
  (src/parser/octet_string.rs) and the common structures (src/parser/common.rs).

  A parser takes the remaining input and returns `Except PErr (value × rest)`.
  Every Rust panic site (slice indexing, `SIZE - len`, `bytes[0]`) is `PErr.panic site`.
  u32 fields are `Nat`; the checked operations of the code are modelled by explicit
  comparisons against `u32Max`.
-/
namespace Sml

abbrev Bytes := List UInt8

/-- `ParseError` (mod.rs) with `InvalidTlf(TlfParseError)` flattened; the `&'static str` of
    `TlfMismatch` is dropped -/
inductive PErr where
  | leftoverInput
  | unexpectedEOF
  | tlfLengthOverflow
  | tlfReserved
  | tlfLengthUnderflow
  | tlfNextByteTypeMismatch
  | tlfInvalidTy
  | tlfMismatch
  | crcMismatch
  | msgEndMismatch
  | unexpectedVariant
  | panic (site : String)
  deriving Repr, DecidableEq

abbrev PRes (α : Type) := Except PErr (α × Bytes)

def u32Max : Nat := 4294967295

/-! ### mod.rs: take_byte / take / take_n -/

def takeByte : Bytes → PRes UInt8
  | [] => .error .unexpectedEOF
  | b :: rest => .ok (b, rest)

def takeN (input : Bytes) (n : Nat) : PRes Bytes :=
  if input.length < n then .error .unexpectedEOF
  else .ok (input.take n, input.drop n)

/-! ### tlf.rs -/

inductive Ty where
  | octetString | boolean | integer | unsigned | listOf
  deriving Repr, DecidableEq

structure Tlf where
  ty : Ty
  len : Nat
  deriving Repr, DecidableEq

/-- `Ty::from_byte` (tlf.rs:130-142) -/
def Ty.ofBits (t : UInt8) : Except PErr Ty :=
  if t = 0 then .ok .octetString
  else if t = 4 then .ok .boolean
  else if t = 5 then .ok .integer
  else if t = 6 then .ok .unsigned
  else if t = 7 then .ok .listOf
  else .error .tlfInvalidTy

/-- the three fields of one TLF byte (tlf.rs:99-105): continuation bit, type bits, length nibble -/
def tlfMore (b : UInt8) : Bool := (b &&& 0x80) != 0
def tlfTyBits (b : UInt8) : UInt8 := (b >>> 4) &&& 0x07
def tlfNibble (b : UInt8) : Nat := (b &&& 0x0F).toNat

/-- the `while has_more_bytes` loop (tlf.rs:68-82, with `checked_mul(16)`); called with
    `has_more_bytes = true`; returns `(len, tlf_len, rest)` -/
def tlfLoop (len tlfLen : Nat) : Bytes → Except PErr (Nat × Nat × Bytes)
  | [] => .error .unexpectedEOF
  | b :: rest =>
    -- `tlf_len` is a usize (after the fix): no overflow on inputs shorter than 2^64 bytes
    if tlfTyBits b ≠ 0 then .error .tlfNextByteTypeMismatch
    else if len * 16 > u32Max then .error .tlfLengthOverflow
    else
      let len := len * 16 + tlfNibble b
      if len > u32Max then .error (.panic "tlf.rs:82 len overflow")
      else if tlfMore b then tlfLoop len (tlfLen + 1) rest
      else .ok (len, tlfLen + 1, rest)

/-- `TypeLengthField::parse` (tlf.rs:58-97) -/
def parseTlf (input : Bytes) : PRes Tlf :=
  match input with
  | [] => .error .unexpectedEOF
  | b :: rest =>
    match Ty.ofBits (tlfTyBits b) with
    | .error e => .error e
    | .ok ty =>
      if ty = .boolean ∧ tlfMore b then .error .tlfReserved
      else
        let r : Except PErr (Nat × Nat × Bytes) :=
          if tlfMore b then tlfLoop (tlfNibble b) 1 rest else .ok (tlfNibble b, 1, rest)
        match r with
        | .error e => .error e
        | .ok (len, tlfLen, rest) =>
          if ty ≠ .listOf then
            -- `u32::try_from(tlf_len).ok().and_then(|t| len.checked_sub(t))`; `len ≤ u32Max` always
            if tlfLen > u32Max ∨ len < tlfLen then .error .tlfLengthUnderflow
            else .ok ({ ty := ty, len := len - tlfLen }, rest)
          else .ok ({ ty := ty, len := len }, rest)

/-- `impl SmlParse for T: SmlParseTlf` (mod.rs:191-199) -/
def parseViaTlf {α : Type} (check : Tlf → Bool) (withTlf : Bytes → Tlf → PRes α) (input : Bytes) : PRes α :=
  match parseTlf input with
  | .error e => .error e
  | .ok (tlf, rest) =>
    if !check tlf then .error .tlfMismatch else withTlf rest tlf

/-- `impl SmlParse for Option<T>` (mod.rs:201-210) -/
def parseOpt {α : Type} (p : Bytes → PRes α) (input : Bytes) : PRes (Option α) :=
  match input with
  | 0x01 :: rest => .ok (none, rest)
  | _ =>
    match p input with
    | .error e => .error e
    | .ok (x, rest) => .ok (some x, rest)

/-! ### num.rs -/

/-- big-endian value of a byte list -/
def beNat : Bytes → Nat
  | bs => bs.foldl (fun acc b => acc * 256 + b.toNat) 0

/-- `<int>::from_be_bytes` on a buffer of `size` bytes -/
def fromBe (signed : Bool) (size : Nat) (buffer : Bytes) : Int :=
  let n := beNat buffer
  if signed ∧ n ≥ 2 ^ (8 * size - 1) then (n : Int) - (2 ^ (8 * size) : Nat) else n

/-- `check_tlf` of the integer types (num.rs:46-52) -/
def numCheck (signed : Bool) (size : Nat) (tlf : Tlf) : Bool :=
  tlf.ty = (if signed then Ty.integer else Ty.unsigned) && tlf.len ≤ size && tlf.len != 0

/-- `parse_num::<SIZE, IS_SIGNED>` + `from_be_bytes` (num.rs:9-36, 54-60) -/
def parseNum (signed : Bool) (size : Nat) (input : Bytes) (tlf : Tlf) : PRes Int :=
  match takeN input tlf.len with
  | .error e => .error e
  | .ok (bytes, rest) =>
    let fill : Except PErr UInt8 :=
      if signed then
        match bytes with
        | [] => .error (.panic "num.rs:18 index out of bounds")
        | b0 :: _ => .ok (if b0 > 0x7F then 0xFF else 0x00)
      else .ok 0x00
    match fill with
    | .error e => .error e
    | .ok fill =>
      if size < tlf.len then .error (.panic "num.rs:31 subtraction overflow")
      else
        let buffer := List.replicate (size - tlf.len) fill ++ bytes
        .ok (fromBe signed size buffer, rest)

/-- `<uN>::parse` / `<iN>::parse` -/
def parseInt (signed : Bool) (size : Nat) : Bytes → PRes Int :=
  parseViaTlf (numCheck signed size) (parseNum signed size)

def boolCheck (tlf : Tlf) : Bool := tlf.ty = .boolean && tlf.len = 1

/-- `bool::parse_with_tlf` (num.rs:75-78) -/
def parseBoolWith (input : Bytes) (_tlf : Tlf) : PRes Bool :=
  match takeByte input with
  | .error e => .error e
  | .ok (b, rest) => .ok (b > 0, rest)

/-! ### octet_string.rs -/

def octetCheck (tlf : Tlf) : Bool := tlf.ty = .octetString

def parseOctetWith (input : Bytes) (tlf : Tlf) : PRes Bytes := takeN input tlf.len

def parseOctet : Bytes → PRes Bytes := parseViaTlf octetCheck parseOctetWith

/-! ### common.rs -/

inductive Time where
  | secIndex (v : Int)
  deriving Repr, DecidableEq

def timeCheck (tlf : Tlf) : Bool :=
  (tlf.ty = .listOf && tlf.len = 2) || (tlf.ty = .unsigned && tlf.len = 4)

/-- `Time::parse_with_tlf` (common.rs:324-344) incl. the Holley DTZ541 workaround -/
def parseTimeWith (input : Bytes) (tlf : Tlf) : PRes Time :=
  if tlf.ty = .unsigned ∧ tlf.len = 4 then
    -- `take::<4>` + `u32::from_be_bytes`
    match takeN input 4 with
    | .error e => .error e
    | .ok (bytes, rest) => .ok (.secIndex (beNat bytes), rest)
  else
    match parseInt false 1 input with
    | .error e => .error e
    | .ok (tag, rest) =>
      if tag = 1 then
        match parseInt false 4 rest with
        | .error e => .error e
        | .ok (x, rest) => .ok (.secIndex x, rest)
      else .error .unexpectedVariant

def parseTime : Bytes → PRes Time := parseViaTlf timeCheck parseTimeWith

inductive ListType where
  | time (t : Time)
  deriving Repr, DecidableEq

def listTypeCheck (tlf : Tlf) : Bool := tlf.ty = .listOf && tlf.len = 2

/-- `ListType::parse_with_tlf` (common.rs:215-224) -/
def parseListTypeWith (input : Bytes) (_tlf : Tlf) : PRes ListType :=
  match parseInt false 1 input with
  | .error e => .error e
  | .ok (tag, rest) =>
    if tag = 1 then
      match parseTime rest with
      | .error e => .error e
      | .ok (x, rest) => .ok (.time x, rest)
    else .error .unexpectedVariant

/-- `Value` (common.rs:139-183); the integer payload is kept with its width class -/
inductive Value where
  | bool (b : Bool)
  | bytes (bs : Bytes)
  | int (size : Nat) (v : Int)        -- I8/I16/I32/I64: size = 1/2/4/8
  | uns (size : Nat) (v : Int)        -- U8/U16/U32/U64
  | list (l : ListType)
  deriving Repr, DecidableEq

def mapRes {α β : Type} (f : α → β) : PRes α → PRes β
  | .error e => .error e
  | .ok (x, rest) => .ok (f x, rest)

/-- `Value::parse_with_tlf` (common.rs:158-183): first matching `check_tlf` wins -/
def parseValueWith (input : Bytes) (tlf : Tlf) : PRes Value :=
  if boolCheck tlf then mapRes .bool (parseBoolWith input tlf)
  else if octetCheck tlf then mapRes .bytes (parseOctetWith input tlf)
  else if numCheck true 1 tlf then mapRes (.int 1) (parseNum true 1 input tlf)
  else if numCheck true 2 tlf then mapRes (.int 2) (parseNum true 2 input tlf)
  else if numCheck true 4 tlf then mapRes (.int 4) (parseNum true 4 input tlf)
  else if numCheck true 8 tlf then mapRes (.int 8) (parseNum true 8 input tlf)
  else if numCheck false 1 tlf then mapRes (.uns 1) (parseNum false 1 input tlf)
  else if numCheck false 2 tlf then mapRes (.uns 2) (parseNum false 2 input tlf)
  else if numCheck false 4 tlf then mapRes (.uns 4) (parseNum false 4 input tlf)
  else if numCheck false 8 tlf then mapRes (.uns 8) (parseNum false 8 input tlf)
  else if listTypeCheck tlf then mapRes .list (parseListTypeWith input tlf)
  else .error .tlfMismatch

def parseValue : Bytes → PRes Value := parseViaTlf (fun _ => true) parseValueWith

/-- `Status` (common.rs:228-254) -/
inductive Status where
  | status (size : Nat) (v : Int)     -- Status8/16/32/64: size = 1/2/4/8
  deriving Repr, DecidableEq

def parseStatusWith (input : Bytes) (tlf : Tlf) : PRes Status :=
  if numCheck false 1 tlf then mapRes (.status 1) (parseNum false 1 input tlf)
  else if numCheck false 2 tlf then mapRes (.status 2) (parseNum false 2 input tlf)
  else if numCheck false 4 tlf then mapRes (.status 4) (parseNum false 4 input tlf)
  else if numCheck false 8 tlf then mapRes (.status 8) (parseNum false 8 input tlf)
  else .error .tlfMismatch

def parseStatus : Bytes → PRes Status := parseViaTlf (fun _ => true) parseStatusWith

structure ListEntry where
  objName : Bytes
  status : Option Status
  valTime : Option Time
  unit : Option Int
  scaler : Option Int
  value : Value
  valueSignature : Option Bytes
  deriving Repr, DecidableEq

def listCheck (n : Nat) (tlf : Tlf) : Bool := tlf.ty = .listOf && tlf.len = n

/-- `ListEntry::parse_with_tlf` (common.rs:96-115) -/
def parseListEntryWith (input : Bytes) (_tlf : Tlf) : PRes ListEntry :=
  match parseOctet input with
  | .error e => .error e
  | .ok (objName, input) =>
  match parseOpt parseStatus input with
  | .error e => .error e
  | .ok (status, input) =>
  match parseOpt parseTime input with
  | .error e => .error e
  | .ok (valTime, input) =>
  match parseOpt (parseInt false 1) input with
  | .error e => .error e
  | .ok (unit, input) =>
  match parseOpt (parseInt true 1) input with
  | .error e => .error e
  | .ok (scaler, input) =>
  match parseValue input with
  | .error e => .error e
  | .ok (value, input) =>
  match parseOpt parseOctet input with
  | .error e => .error e
  | .ok (valueSignature, input) =>
    .ok ({ objName, status, valTime, unit, scaler, value, valueSignature }, input)

def parseListEntry : Bytes → PRes ListEntry := parseViaTlf (listCheck 7) parseListEntryWith

structure OpenResponse where
  codepage : Option Bytes
  clientId : Option Bytes
  reqFileId : Bytes
  serverId : Bytes
  refTime : Option Time
  smlVersion : Option Int
  deriving Repr, DecidableEq

/-- `OpenResponse::parse_with_tlf` (common.rs:32-49) -/
def parseOpenResponseWith (input : Bytes) (_tlf : Tlf) : PRes OpenResponse :=
  match parseOpt parseOctet input with
  | .error e => .error e
  | .ok (codepage, input) =>
  match parseOpt parseOctet input with
  | .error e => .error e
  | .ok (clientId, input) =>
  match parseOctet input with
  | .error e => .error e
  | .ok (reqFileId, input) =>
  match parseOctet input with
  | .error e => .error e
  | .ok (serverId, input) =>
  match parseOpt parseTime input with
  | .error e => .error e
  | .ok (refTime, input) =>
  match parseOpt (parseInt false 1) input with
  | .error e => .error e
  | .ok (smlVersion, input) =>
    .ok ({ codepage, clientId, reqFileId, serverId, refTime, smlVersion }, input)

def parseOpenResponse : Bytes → PRes OpenResponse := parseViaTlf (listCheck 6) parseOpenResponseWith

structure CloseResponse where
  globalSignature : Option Bytes
  deriving Repr, DecidableEq

def parseCloseResponseWith (input : Bytes) (_tlf : Tlf) : PRes CloseResponse :=
  match parseOpt parseOctet input with
  | .error e => .error e
  | .ok (globalSignature, input) => .ok ({ globalSignature }, input)

def parseCloseResponse : Bytes → PRes CloseResponse := parseViaTlf (listCheck 1) parseCloseResponseWith

/-- `EndOfSmlMessage::parse` (common.rs:302-310) -/
def parseEndOfMsg (input : Bytes) : PRes Unit :=
  match takeByte input with
  | .error e => .error e
  | .ok (b, rest) => if b ≠ 0x00 then .error .msgEndMismatch else .ok ((), rest)

/-- the message envelope up to the body: list(6), transaction id, group no, abort-on-error
    (complete.rs:74-80 and streaming.rs:135-141 are the same code) -/
def parseMsgHeader (input : Bytes) : PRes (Bytes × Int × Int) :=
  match parseTlf input with
  | .error e => .error e
  | .ok (tlf, input) =>
    if tlf.ty ≠ .listOf ∨ tlf.len ≠ 6 then .error .tlfMismatch
    else
      match parseOctet input with
      | .error e => .error e
      | .ok (tid, input) =>
      match parseInt false 1 input with
      | .error e => .error e
      | .ok (groupNo, input) =>
      match parseInt false 1 input with
      | .error e => .error e
      | .ok (abortOnError, input) => .ok ((tid, groupNo, abortOnError), input)

/-- CRC field, end marker and checksum comparison (complete.rs:83-94 = streaming.rs:50-63).
    `orig` is the input at the start of the message, `input` the remaining input after the body. -/
def parseMsgTrailer (orig input : Bytes) : PRes Unit :=
  if orig.length < input.length then .error (.panic "complete.rs:83 subtraction overflow")
  else
    let numBytesRead := orig.length - input.length
    match parseInt false 2 input with
    | .error e => .error e
    | .ok (crc, input) =>
    match parseEndOfMsg input with
    | .error e => .error e
    | .ok (_, input) =>
      let digest := swap16 (crc16 (orig.take numBytesRead))
      if (digest.toNat : Int) ≠ crc then .error .crcMismatch else .ok ((), input)

end Sml

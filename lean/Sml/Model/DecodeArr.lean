import Sml.Model.Decode
import Sml.Model.Frontends
/-
  The push decoder of `Sml/Model/Decode.lean` (`Dec`), instantiated for `B = ArrayBuf<N>`
  with the REAL buffer representation (`ArrayBuf` in `Sml/Model/Buf.lean`, src/util.rs:79-150):
  a backing array of exactly `N` bytes that keeps stale bytes, plus `num_elements`.

  This file is a transcription of `Decode.lean` with the buffer type swapped.  Every buffer access
  goes through the operations the Rust code calls for `B = ArrayBuf<N>`:
    * `buf.push(b)`          -> `ArrayBuf.push`   (`.oom` = `Err(OutOfMemory)`, `.panic` = index panic)
    * `buf.clear()`          -> `ArrayBuf.clear`  (only `num_elements = 0`; the bytes stay!)
    * `&self.buf[..]`        -> `ArrayBuf.deref`  (`&self.buffer[0..self.num_elements]`, may panic)
  A panic outcome of an `ArrayBuf` operation becomes `Res.panic` / `Out.panic` with the site of
  the buffer operation.

  One detail is closer to the Rust code than `Decode.lean`: `push_inner` (decode.rs:435-441) resets
  the decoder *at the moment the buffer push fails*, i.e. with the backing array as it is after the
  pushes that succeeded before.  `PushResA.oom` therefore carries that already reset decoder
  (in `Dec` the stale bytes do not exist, so `Dec.afterPush` can simply reset the old state).
-/
namespace Sml

/-- `Decoder<ArrayBuf<N>>`: `NonOwningDecoder` + the real `ArrayBuf` it works on -/
structure DecA where
  raw : Nat            -- raw_msg_len
  crc : UInt16         -- running digest
  st : DState
  zc : Nat             -- zero_cache (u8)
  buf : ArrayBuf
  deriving Repr, DecidableEq

namespace DecA

/-- `Decoder::from_buf(buf)` (decode.rs:100-106): `buf.clear()` only sets `num_elements = 0`,
    whatever is in the backing array stays there -/
def fromBuf (a : ArrayBuf) : DecA :=
  { raw := 0, crc := crcInit, st := .look 0 0, zc := 0, buf := a.clear }

/-- `Decoder::new()` (decode.rs:95-97): `Self::from_buf(Default::default())` -/
def fresh (n : Nat) : DecA := fromBuf (ArrayBuf.new n)

/-- `reset` (decode.rs:394-407): returns the number of discarded bytes -/
def reset (d : DecA) : DecA × Nat :=
  let n := match d.st with
    | .done => 0
    | _ => d.raw
  ({ d with st := .look 0 0, buf := d.buf.clear, raw := 0, zc := 0 }, n)

/-- `finalize` (decode.rs:379-391) -/
def finalize (d : DecA) : DecA × Option DecErr :=
  let res := match d.st with
    | .look 0 0 => Option.none
    | .done => Option.none
    | _ => some (DecErr.discarded d.raw)
  ((d.reset).1, res)

/-- result of the data-push helpers (`push_inner`, `flush`, `push`) -/
inductive PushResA where
  | ok (d : DecA)
  /-- `Err(OutOfMemory)`; `d` is the decoder after the `self.reset(buf)` of `push_inner` -/
  | oom (d : DecA)
  | panic (site : String)

/-- `push_inner` (decode.rs:435-441) -/
def pushInner (d : DecA) (b : UInt8) : PushResA :=
  match d.buf.push b with
  | .ok buf => .ok { d with buf := buf }
  | .oom => .oom (d.reset).1
  | .panic s => .panic s

/-- `for _ in 0..n { push_inner(0)? }` -/
def pushZeros (d : DecA) : Nat → PushResA
  | 0 => .ok d
  | n + 1 =>
    match d.pushInner 0 with
    | .ok d' => pushZeros d' n
    | r => r

/-- `flush` (decode.rs:410-416) -/
def flush (d : DecA) : PushResA :=
  match d.pushZeros d.zc with
  | .ok d' => .ok { d' with zc := 0 }
  | r => r

/-- `push` (decode.rs:418-433) -/
def pushData (d : DecA) (b : UInt8) : PushResA :=
  if b = 0 then
    if d.zc ≤ 3 then
      if d.zc + 1 > 255 then .panic "decode.rs:421 zero_cache overflow"
      else .ok { d with zc := d.zc + 1 }
    else d.pushInner b
  else
    match d.flush with
    | .ok d' => d'.pushInner b
    | r => r

/-- `for _ in 0..n { self.push(buf, x)? }` -/
def pushRep (d : DecA) (x : UInt8) : Nat → PushResA
  | 0 => .ok d
  | n + 1 =>
    match d.pushData x with
    | .ok d' => pushRep d' x n
    | r => r

/-- `for b in bs { self.push(buf, b)? }` -/
def pushList (d : DecA) : List UInt8 → PushResA
  | [] => .ok d
  | b :: bs =>
    match d.pushData b with
    | .ok d' => pushList d' bs
    | r => r

/-- turn the result of a data push into the result of `push_byte` (the `?` operator):
    on OOM the decoder has already been reset by `push_inner` -/
def afterPush (d0 : DecA) (r : PushResA) (k : DecA → DecA × Res) : DecA × Res :=
  match r with
  | .ok d => k d
  | .oom d => (d, .err .oom)
  | .panic s => (d0, .panic s)

/-- one byte in state `LookingForMessageStart` (decode.rs:180-210) -/
def pushLook (d : DecA) (disc init : Nat) (b : UInt8) : DecA × Res :=
  if (b = 0x1b ∧ init < 4) ∨ (b = 0x01 ∧ init ≥ 4) then
    if init + 1 > 255 then (d, .panic "decode.rs:186 num_init_seq_bytes overflow")
    else
      let init := init + 1
      if init = 8 then
        let d := { d with st := .normal, raw := 8, crc := startCrc }
        if disc > 0 then (d, .err (.discarded disc)) else (d, .more)
      else ({ d with st := .look disc init }, .more)
  else
    let keep : Nat := if b = 0x1b then (if init = 4 then 4 else 1) else 0
    if 1 + init < keep then (d, .panic "decode.rs:196 subtraction overflow")
    else
      ({ d with st := .look (disc + (1 + init - keep)) keep }, .more)

/-- end sequence `1a pad crc crc` (decode.rs:270-321) -/
def pushEnd (d : DecA) (q : Quad) : DecA × Res :=
  let pad := q.b
  let readCrc := ofLe16 q.c q.d
  let crc := crcUpdate d.crc [q.a, q.b]
  let calcCrc := crcFinal crc
  -- `mem::swap` leaves a fresh digest in `self.crc`
  let d := { d with crc := crcInit }
  let misaligned := d.raw % 4 != 0
  let padTooLarge := pad > 3
  let padLargerThanMsg := d.raw < pad.toNat + 16
  let badPad := pad.toNat > d.zc
  if readCrc != calcCrc || misaligned || padTooLarge || padLargerThanMsg || badPad then
    ((d.reset).1, .err (.invalidMsg readCrc calcCrc misaligned pad badPad))
  else if d.zc < pad.toNat then (d, .panic "decode.rs:315 zero_cache underflow")
  else
    let d := { d with zc := d.zc - pad.toNat }
    afterPush d d.flush fun d => ({ d with st := .done }, .ready)

/-- fourth payload byte of an escape sequence has arrived (decode.rs:244-366) -/
def pushEscComplete (d : DecA) (q : Quad) : DecA × Res :=
  if q = ⟨0x1b, 0x1b, 0x1b, 0x1b⟩ then
    let d := { d with crc := crcUpdate d.crc q.toList }
    afterPush d (d.pushList q.toList) fun d => ({ d with st := .normal }, .more)
  else if q = ⟨0x01, 0x01, 0x01, 0x01⟩ then
    if d.raw < 8 then (d, .panic "decode.rs:261 subtraction overflow")
    else
      let ignored := d.raw - 8
      ({ d with raw := 8, zc := 0, buf := d.buf.clear, crc := startCrc, st := .normal },
        .err (.discarded ignored))
  else if q.a = 0x1a then pushEnd d q
  else
    let k := (4 - d.raw % 4) % 4
    if k > 0 ∧ ((q.toList.take k).all (· = 0x1b)) ∧ q.get k = 0x1a then
      let d := { d with crc := crcUpdate d.crc (q.toList.take k) }
      afterPush d (d.pushRep 0x1b k) fun d =>
        ({ d with st := .escPayload (4 - k) (q.shift k) }, .more)
    else
      ((d.reset).1, .err (.invalidEsc q.a q.b q.c q.d))

/-- `NonOwningDecoder::push_byte` (decode.rs:176-376) -/
def pushByte (d : DecA) (b : UInt8) : DecA × Res :=
  -- `Done => { self.reset(buf); return self.push_byte(buf, b) }` (decode.rs:369-373), unfolded once
  let d := match d.st with
    | .done => (d.reset).1
    | _ => d
  let d := { d with raw := d.raw + 1 }
  match d.st with
  | .look disc init => pushLook d disc init b
  | .normal =>
    let d := { d with crc := crcByte d.crc b }
    if b = 0x1b then ({ d with st := .escChars 1 }, .more)
    else afterPush d (d.pushData b) fun d => (d, .more)
  | .escChars n =>
    let d := { d with crc := crcByte d.crc b }
    if b ≠ 0x1b then
      afterPush d (d.pushRep 0x1b n) fun d' =>
        afterPush d (d'.pushData b) fun d'' => ({ d'' with st := .normal }, .more)
    else if n = 3 then ({ d with st := .escPayload 0 Quad.zero }, .more)
    else if n + 1 > 255 then (d, .panic "decode.rs:233 overflow")
    else ({ d with st := .escChars (n + 1) }, .more)
  | .escPayload step q =>
    match q.set step b with
    | Option.none => (d, .panic "decode.rs:237 index out of bounds")
    | some q =>
      if step < 3 then ({ d with st := .escPayload (step + 1) q }, .more)
      else pushEscComplete d q
  | .done => (d, .panic "decode.rs:369 unreachable: Done after reset")

def isDone (d : DecA) : Bool := d.st = .done

/-- `Decoder::borrow_buf` (decode.rs:130-135): `&self.buf[..self.buf.len()]`, both the `len()` and
    the slicing go through `Deref for ArrayBuf` (`&self.buffer[0..self.num_elements]`) -/
def borrowBuf (d : DecA) : Out :=
  if d.isDone then
    match d.buf.deref with
    | .ok m => .msg (m.take m.length)
    | .oom => .panic "unreachable: deref does not allocate"
    | .panic s => .panic s
  else .panic "decode.rs:132 borrow_buf outside Done"

/-- `Decoder::push_byte` (decode.rs:110-113) -/
def push (d : DecA) (b : UInt8) : DecA × Out :=
  match d.pushByte b with
  | (d', .more) => (d', .none)
  | (d', .ready) => (d', d'.borrowBuf)
  | (d', .err e) => (d', .err e)
  | (d', .panic s) => (d', .panic s)

/-- one operation of a history (`Op` of `Frontends.lean`).  `Op.new` replaces the decoder by
    `Decoder::<ArrayBuf<N>>::new()` with the same `N`; `Op.fromBuf stale` by
    `Decoder::from_buf(stale.into_iter().collect::<ArrayBuf<N>>())`, where collecting more than `N`
    bytes panics in the caller (`FromIterator`, util.rs:113-121) and leaves the decoder alone. -/
def step (d : DecA) : Op → DecA × OpOut
  | .push b => let (d', o) := d.push b; (d', .out o)
  | .fin => let (d', e) := d.finalize; (d', .fin e)
  | .reset => let (d', n) := d.reset; (d', .reset n)
  | .new => (DecA.fresh d.buf.N, .new)
  | .fromBuf stale =>
    match ArrayBuf.fromIter d.buf.N stale with
    | .ok a => (DecA.fromBuf a, .fromBuf)
    | .oom => (d, .out (.panic "unreachable: from_iter unwraps"))
    | .panic s => (d, .out (.panic s))

def run (d : DecA) : List Op → DecA × List OpOut
  | [] => (d, [])
  | op :: ops =>
    let (d', o) := d.step op
    let (d'', os) := DecA.run d' ops
    (d'', o :: os)

/-- feed bytes, collect one `Out` per byte -/
def pushAll (d : DecA) : List UInt8 → DecA × List Out
  | [] => (d, [])
  | b :: bs =>
    let (d', o) := d.push b
    let (d'', os) := DecA.pushAll d' bs
    (d'', o :: os)

end DecA

end Sml

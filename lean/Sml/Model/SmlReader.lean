import Sml.Model.Frontends
import Sml.Model.Complete
import Sml.Model.Streaming
/-
  `SmlReader` glue (src/lib.rs:378-480, 605-669): `read::<T>` / `next::<T>` / `read_nb::<T>` /
  `next_nb::<T>` are the `DecoderReader` call followed by the target adapter `T::parse_from`.
-/
namespace Sml

inductive Target where
  | bytes      -- DecodedBytes
  | file       -- parser::complete::File
  | parser     -- parser::streaming::Parser (iterated to its end by the caller)
  deriving Repr, DecidableEq

inductive SmlItem where
  | bytes (m : Bytes)
  | file (f : File)
  | events (evs : List SParser.SItem)
  | parseErr (e : PErr)
  | decErr (e : DecErr)
  | ioErr (k : IoKind) (n : Nat)
  | nbWouldBlock
  | none
  | panic (site : String)
  deriving Repr, DecidableEq

/-- `T::parse_from` (lib.rs:605-669) applied to what the decoder reader returned -/
def adapt (t : Target) : RItem → SmlItem
  | .ok m =>
    match t with
    | .bytes => .bytes m
    | .file =>
      match parseFile m with
      | .ok f => .file f
      | .error e => .parseErr e
    | .parser => .events ((SParser.new m).collect (m.length + 2))
  | .decErr e => .decErr e
  | .ioErr k n => .ioErr k n
  | .nbWouldBlock => .nbWouldBlock
  | .none => .none
  | .panic s => .panic s

/-- one `SmlReader` call with its target type -/
def Rdr.smlCall (r : Rdr) (c : Rdr.Call) (t : Target) : Rdr × SmlItem :=
  let (r', x) := r.call c
  (r', adapt t x)

def Rdr.smlCalls (r : Rdr) : List (Rdr.Call × Target) → Rdr × List SmlItem
  | [] => (r, [])
  | (c, t) :: cs =>
    let (r', x) := r.smlCall c t
    let (r'', xs) := Rdr.smlCalls r' cs
    (r'', x :: xs)

end Sml

import Sml.Props.C11

#print axioms Sml.C11.nexts_eq
#print axioms Sml.C11.results_spec
#print axioms Sml.C11.all_calls
#print axioms Sml.C11.nb_variants
#print axioms Sml.C11.calls_eq
#print axioms Sml.C11.reads_eq
#print axioms Sml.C11.wouldblock_transparent
#print axioms Sml.C11.wouldblock_transparent_read
#print axioms Sml.C11.wouldblock_transparent_calls
#print axioms Sml.C11.wouldblock_transparent_from
#print axioms Sml.C11.wouldblock_reference
#print axioms Sml.C11.read_wouldBlock
#print axioms Sml.C11.read_interrupted
#print axioms Sml.C11.other_resets
#print axioms Sml.C11.other_resets_read
#print axioms Sml.C11.other_count_exact
#print axioms Sml.C11.other_leaves_fresh
#print axioms Sml.C11.equiv_same_results
#print axioms Sml.C11.eof
#print axioms Sml.C11.eof_pending
#print axioms Sml.C11.eof_stream
#print axioms Sml.C11.eof_count_exact
#print axioms Sml.C11.eof_stream_mem

import Sml.Props.C09
#print axioms Sml.C09.events_fuel
#print axioms Sml.C09.agree_ok
#print axioms Sml.C09.agree_err
#print axioms Sml.C09.event_grammar
#print axioms Sml.C09.wellFormed_iff_grammar
#print axioms Sml.C09.events_grammar_ok
#print axioms Sml.C09.error_prefix
#print axioms Sml.C09.completed_ok

import Sml.Props.C18
import Sml.Props.C18Dec

#print axioms Sml.C18.step_refines
#print axioms Sml.C18.run_refines_from'
#print axioms Sml.C18.run_refines
#print axioms Sml.C18.fromIter_ok
#print axioms Sml.C18.fromIter_overflow
#print axioms Sml.C18.eq_debug_visible_only
#print axioms Sml.C18.buf_refines
#print axioms Sml.C18.buf_run_refines
#print axioms Sml.C18.pushByte_refines
#print axioms Sml.C18.push_refines
#print axioms Sml.C18.reset_finalize_refine
#print axioms Sml.C18.step_refines_dec
#print axioms Sml.C18.push_never_panics
#print axioms Sml.C18.run_refines_dec
#print axioms Sml.C18.decoder_on_arraybuf
#print axioms Sml.C18.stale_bytes_never_leak
#print axioms Sml.C18.stale_bytes_never_leak'
#print axioms Sml.C18.fromBuf_any_buffer
#print axioms Sml.C18.fromBuf_contents_irrelevant
#print axioms Sml.C18.no_panic_arraybuf
#print axioms Sml.C18.sound_arraybuf
#print axioms Sml.C18.sound_stream_fromBuf
#print axioms Sml.C18.roundtrip_push_fromBuf
#print axioms Sml.C18.roundtrip_push_arraybuf

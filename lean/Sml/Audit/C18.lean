import Sml.Props.C18

#print axioms Sml.C18.step_refines
#print axioms Sml.C18.run_refines_from'
#print axioms Sml.C18.run_refines
#print axioms Sml.C18.fromIter_ok
#print axioms Sml.C18.fromIter_overflow
#print axioms Sml.C18.eq_debug_visible_only
#print axioms Sml.C18.buf_refines
#print axioms Sml.C18.buf_run_refines

import Sml.Props.C05
#print axioms Sml.C05.inv_fresh
#print axioms Sml.C05.inv_pushByte
#print axioms Sml.C05.inv_push
#print axioms Sml.C05.inv_finalize
#print axioms Sml.C05.inv_reset
#print axioms Sml.C05.inv_bounds
#print axioms Sml.C05.no_panic
#print axioms Sml.C05.inv_reachable
#print axioms Sml.C05.cap_reachable
#print axioms Sml.C05.run_length
#print axioms Sml.C05.decodeAll_no_panic
#print axioms Sml.C05.iter_no_panic
#print axioms Sml.C05.reader_no_panic
#print axioms Sml.C05.reader_inv
#print axioms Sml.C05.encoder_total
#print axioms Sml.C05.encodeBuf_no_panic
#print axioms Sml.C05.encoder_run_length

import Sml.Props.C02
import Sml.Lemmas.C02Pos
import Sml.Props.C05Vec
/- Axiom audit for property C02: only propext / Classical.choice / Quot.sound may appear. -/
#print axioms Sml.C02.sound
#print axioms Sml.C02.sound_stream
#print axioms Sml.C02.sound_decodeAll
#print axioms Sml.C02.sound_iter
#print axioms Sml.C02.sound_reader
#print axioms Sml.C02.sound_iter_pos
#print axioms Sml.C02.sound_iter_pos_take
#print axioms Sml.C02.sound_reader_pos
#print axioms Sml.C02.sound_decodeAll_pos
#print axioms Sml.C02.sinceReset_spec
#print axioms Sml.C02.sound_fallible
#print axioms Sml.C02.sound_fallible_cap
#print axioms Sml.C02.sound_stream_fallible

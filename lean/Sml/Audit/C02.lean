import Sml.Props.C02
/- Axiom audit for property C02: only propext / Classical.choice / Quot.sound may appear. -/
#print axioms Sml.C02.sound
#print axioms Sml.C02.sound_stream
#print axioms Sml.C02.sound_decodeAll
#print axioms Sml.C02.sound_iter
#print axioms Sml.C02.sound_reader

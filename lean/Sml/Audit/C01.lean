import Sml.Props.C01
/- Axiom audit for property C01: only propext / Classical.choice / Quot.sound may appear. -/
#print axioms Sml.C01.roundtrip_push
#print axioms Sml.C01.roundtrip_finalize
#print axioms Sml.C01.roundtrip_state
#print axioms Sml.C01.roundtrip_decode
#print axioms Sml.C01.roundtrip_iter
#print axioms Sml.C01.roundtrip_reader_next
#print axioms Sml.C01.roundtrip_reader_read
#print axioms Sml.C01.collect_bytes
#print axioms Sml.C01.roundtrip_encodeBuf
#print axioms Sml.C01.roundtrip_encodeIter
#print axioms Sml.C01.encodeIter_bytes
#print axioms Sml.frame_tail_decodes
#print axioms Sml.start_decodes

import Sml.Props.C06
import Sml.Lemmas.C06Push
#print axioms Sml.C06.no_panic_complete
#print axioms Sml.C06.no_panic_streaming
#print axioms Sml.C06.entries_bound
#print axioms Sml.C06.entries_overlong
#print axioms Sml.C06.streaming_entries_bound
#print axioms Sml.C06.ghost_faithful
#print axioms Sml.C06.alloc_bound_tight
#print axioms Sml.C06.alloc_bound
#print axioms Sml.C06.each_request_le
#print axioms Sml.C06.pushes_bound
#print axioms Sml.C06.request_def
#print axioms Sml.C06.parseListEntryWith_consumes
#print axioms Sml.C06.parseListEntry_consumes
#print axioms Sml.C06.entry_consumes
#print axioms Sml.C06.entry_consumes_one
#print axioms Sml.C06.listLoop_res_gen
#print axioms Sml.C06.listLoop_res
#print axioms Sml.C06.parseListWithLit_res
#print axioms Sml.C06.listLoop_ok_v
#print axioms Sml.C06.listLoop_spec
#print axioms Sml.C06.listLoop_error_char
#print axioms Sml.C06.listLoop_pushes
#print axioms Sml.C06.pushes_le_request
#print axioms Sml.C06.pushes_le_eighth
#print axioms Sml.C06.listLoop_no_regrow
#print axioms Sml.C06.no_regrow

import Sml.Props.C06
#print axioms Sml.C06.no_panic_complete
#print axioms Sml.C06.no_panic_streaming
#print axioms Sml.C06.entries_bound
#print axioms Sml.C06.entries_overlong
#print axioms Sml.C06.streaming_entries_bound
#print axioms Sml.C06.ghost_faithful
#print axioms Sml.C06.alloc_bound_tight
#print axioms Sml.C06.alloc_bound
#print axioms Sml.C06.each_request_le
#print axioms Sml.C06.pushes_bound
#print axioms Sml.C06.request_def

import Sml.Props.C16
import Sml.Lemmas.C16Next
import Sml.Lemmas.C16NoTrunc
/- Axiom audit for property C16: only propext / Classical.choice / Quot.sound may appear. -/
#print axioms Sml.C16.exact_fit
#print axioms Sml.C16.exact_fit_iter
#print axioms Sml.C16.too_small
#print axioms Sml.C16.ready_after_oom
#print axioms Sml.C16.default_buf_ok
#print axioms Sml.C16.default_buf_oom
#print axioms Sml.Dec.pushByte_rel
#print axioms Sml.Dec.pushAll_rel
#print axioms Sml.C16.next_frame
#print axioms Sml.C16.next_frame_len
#print axioms Sml.C16.next_frame_items
#print axioms Sml.C16.next_frame_reader
#print axioms Sml.C16.startFree_rest_of_no_1b
#print axioms Sml.C16.next_frame_of_no_1b
#print axioms Sml.C16.msg_after_err
#print axioms Sml.C16.too_small_no_truncation
#print axioms Sml.C16.too_small_idle
#print axioms Sml.C16.too_small_no_truncation_idle

import Sml.Props.C12
import Sml.Lemmas.SmallFixes
import Sml.Lemmas.Review2a

#print axioms Sml.C12.tlf_eq_spec
#print axioms Sml.C12.tlf_rest
#print axioms Sml.C12.tlf_no_wrap
#print axioms Sml.C12.tlf_no_panic
#print axioms Sml.C12.tlf_long_field
#print axioms Sml.C12.int_exact
#print axioms Sml.C12.value_int_class
#print axioms Sml.C12.value_uns_class
#print axioms Sml.C12.status_class
#print axioms Sml.C12.value_int_reject
#print axioms Sml.C12.narrow_mem
#print axioms Sml.C12.narrow_ge
#print axioms Sml.C12.narrow_check_int
#print axioms Sml.C12.narrow_check_uns
#print axioms Sml.C12.value_int_exact
#print axioms Sml.C12.value_uns_exact
#print axioms Sml.C12.status_exact
#print axioms Sml.C12.bool_exact
#print axioms Sml.C12.octet_exact
#print axioms Sml.C12.tlf_iff
#print axioms Sml.C12.tlf_error_iff
#print axioms Sml.C12.narrow_min
#print axioms Sml.C12.narrow_least
#print axioms Sml.C12.contError_overflow_iff
#print axioms Sml.C12.contError_eq_overflow_iff
#print axioms Sml.C12.tlf_consumes_prefix
#print axioms Sml.C12.tlfSpec_len_le

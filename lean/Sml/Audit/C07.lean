import Sml.Props.C07
import Sml.Lemmas.SmallFixes
/- Axiom audit for property C07: only propext / Classical.choice / Quot.sound may appear. -/
#print axioms Sml.C07.buf_eq_spec
#print axioms Sml.C07.buf_vec
#print axioms Sml.C07.buf_array
#print axioms Sml.C07.buf_oom_iff
#print axioms Sml.C07.iter_eq_spec
#print axioms Sml.C07.iter_fused
#print axioms Sml.C07.encoders_agree
#print axioms Sml.C07.stuff_no_1b
#print axioms Sml.C07.stuff_cons_ne
#print axioms Sml.C07.stuff_run_general
#print axioms Sml.C07.stuff_run
#print axioms Sml.crc16_check_value

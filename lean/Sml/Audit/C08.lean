import Sml.Props.C08
import Sml.Lemmas.C08Cut
import Sml.Lemmas.Review2a
#print axioms Sml.C08.noise_then_frame
#print axioms Sml.C08.noise_then_frame_state
#print axioms Sml.C08.noise_then_frame_idle
#print axioms Sml.C08.cut_then_frame
#print axioms Sml.C08.cut_state_cap
#print axioms Sml.C08.cut_payload_state
#print axioms Sml.C08.cut_payload_then_frame
#print axioms Sml.C08.cut_then_frame_idle
#print axioms Sml.C08.noise_cut_then_frame
#print axioms Sml.C08.noise_cut
#print axioms Sml.C08.START_no_period
#print axioms Sml.C08.START_length
#print axioms Sml.C08.startFree_iff

import Sml.Props.C17
/- Axiom audit for property C17: only propext / Classical.choice / Quot.sound may appear. -/
#print axioms Sml.C17.tiling
#print axioms Sml.C17.tiling_ok
#print axioms Sml.C17.tiling_history
#print axioms Sml.C17.reset_count
#print axioms Sml.C17.reset_after_frame
#print axioms Sml.C17.frame_tile
#print axioms Sml.C17.io_error_count

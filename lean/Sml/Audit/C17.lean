import Sml.Props.C17
import Sml.Lemmas.C17Bytes
import Sml.Props.C05Vec
/- Axiom audit for property C17: only propext / Classical.choice / Quot.sound may appear. -/
#print axioms Sml.C17.tiling
#print axioms Sml.C17.tiling_ok
#print axioms Sml.C17.tiling_history
#print axioms Sml.C17.reset_count
#print axioms Sml.C17.reset_after_frame
#print axioms Sml.C17.frame_tile
#print axioms Sml.C17.io_error_count
#print axioms Sml.C17.discarded_at_start
#print axioms Sml.C17.tile_boundaries
#print axioms Sml.C17.noise_tile_no_start
#print axioms Sml.C17.rejected_tile_is_frame_start
#print axioms Sml.C17.delivered_tile
#print axioms Sml.C17.leftover
#print axioms Sml.C17.tiling_anchored
#print axioms Sml.C17.tiling_history_fallible

import Sml.Props.C14
import Sml.Props.C05Vec
#print axioms Sml.C14.boundary_cases
#print axioms Sml.C14.equiv_bisim
#print axioms Sml.C14.equiv_run
#print axioms Sml.C14.boundary_equiv_fresh
#print axioms Sml.C14.boundary_fresh
#print axioms Sml.C14.pushAll_append
#print axioms Sml.C14.concat
#print axioms Sml.C14.fromBuf_eq_fresh
#print axioms Sml.C14.step_new
#print axioms Sml.C14.step_fromBuf
#print axioms Sml.C14.new_restarts
#print axioms Sml.C14.fromBuf_restarts
#print axioms Sml.C14.oom_leaves_fresh
#print axioms Sml.C14.boundary_equiv_fresh_fallible
#print axioms Sml.C14.oom_then_as_new
#print axioms Sml.C14.boundary_fresh_fallible
#print axioms Sml.C14.recovers

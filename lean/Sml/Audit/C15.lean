import Sml.Props.C15
import Sml.Lemmas.Review2a
import Sml.Props.C15Vec
#print axioms Sml.C15.decode_eq
#print axioms Sml.C15.iter_take_eq
#print axioms Sml.C15.iter_eq
#print axioms Sml.C15.iter_eq_of_lt
#print axioms Sml.C15.iter_later_none
#print axioms Sml.C15.finalItem_cases
#print axioms Sml.C15.reader_eq
#print axioms Sml.C15.buffer_independent
#print axioms Sml.C15.buffer_independent_final
#print axioms Sml.C15.reference_buffer_independent
#print axioms Sml.Dec.pushAll_noOom
#print axioms Sml.C15.fresh_rel
#print axioms Sml.C15.buffer_independent_noOom
#print axioms Sml.C15.first_difference_is_oom
#print axioms Sml.C15.vec_no_oom
#print axioms Sml.C15.differ_iff_oom
#print axioms Sml.C15.first_difference_exists
#print axioms Sml.C15.reference_buffer_independent_noOom
#print axioms Sml.C15.fallible_push_eq_reference
#print axioms Sml.C15.fallible_push_eq_decode
#print axioms Sml.C15.fallible_cap_push_eq

import Sml.Props.C15
#print axioms Sml.C15.decode_eq
#print axioms Sml.C15.iter_take_eq
#print axioms Sml.C15.iter_eq
#print axioms Sml.C15.iter_eq_of_lt
#print axioms Sml.C15.iter_later_none
#print axioms Sml.C15.finalItem_cases
#print axioms Sml.C15.reader_eq
#print axioms Sml.C15.buffer_independent
#print axioms Sml.C15.buffer_independent_final
#print axioms Sml.C15.reference_buffer_independent

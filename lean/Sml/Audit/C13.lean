import Sml.Props.C13
#print axioms Sml.C13.fused_items
#print axioms Sml.C13.fused
#print axioms Sml.C13.after_error
#print axioms Sml.C13.after_none
#print axioms Sml.C13.collect_fuel_irrelevant

import Sml.Model.Crc
import Sml.Model.Buf
import Sml.Model.Decode
import Sml.Model.Encode
import Sml.Model.Frontends
import Sml.Model.Parser
import Sml.Model.Complete
import Sml.Model.Streaming
import Sml.Model.SmlReader
import Sml.Model.DecodeFallible
import Sml.Spec.Frame
/-
  `smlmodel`: runs the executable definitions of the Lean model behind a line protocol.
  One request per line on stdin, one response line on stdout.  See /verif/PROTOCOL.md.
  This file contains no logic of its own beyond parsing requests and printing results.
-/
open Sml

/-! ### hex / token parsing -/

def hexVal (c : Char) : Option Nat :=
  if '0' ≤ c ∧ c ≤ '9' then some (c.toNat - '0'.toNat)
  else if 'a' ≤ c ∧ c ≤ 'f' then some (c.toNat - 'a'.toNat + 10)
  else if 'A' ≤ c ∧ c ≤ 'F' then some (c.toNat - 'A'.toNat + 10)
  else none

def parseHexChars : List Char → Option (List UInt8)
  | [] => some []
  | [_] => none
  | a :: b :: rest => do
    let x ← hexVal a
    let y ← hexVal b
    let tl ← parseHexChars rest
    pure (UInt8.ofNat (x * 16 + y) :: tl)

/-- chunk: `hex*` or `hh*N` -/
def parseChunk (s : String) : Option (List UInt8) :=
  match s.splitOn "*" with
  | [h] => parseHexChars h.toList
  | [h, n] => do
    let bs ← parseHexChars h.toList
    let k ← n.toNat?
    match bs with
    | [b] => pure (List.replicate k b)
    | _ => none
  | _ => none

/-- byte-string token: `-` (empty) or comma separated chunks -/
def parseBytes (s : String) : Option (List UInt8) :=
  if s = "-" then some []
  else (s.splitOn ",").foldlM (fun acc c => do let bs ← parseChunk c; pure (acc ++ bs)) []

def hexDigit (n : Nat) : Char :=
  if n < 10 then Char.ofNat (n + 48) else Char.ofNat (n - 10 + 97)

def hexByte (b : UInt8) : String :=
  String.ofList [hexDigit (b.toNat / 16), hexDigit (b.toNat % 16)]

def hexOf (bs : List UInt8) : String :=
  String.ofList (bs.foldr (fun b acc => hexDigit (b.toNat / 16) :: hexDigit (b.toNat % 16) :: acc) [])

def hexOrDash (bs : List UInt8) : String := if bs.isEmpty then "-" else hexOf bs

def hex16 (x : UInt16) : String := hexByte (x >>> 8).toUInt8 ++ hexByte x.toUInt8

def parseCap (s : String) : Option (Option Nat) :=
  if s = "inf" then some none else s.toNat?.map some

def joinSp (xs : List String) : String := if xs.isEmpty then "-" else " ".intercalate xs

/-! ### printing transport results -/

def b01 (b : Bool) : String := if b then "1" else "0"

def showErr : DecErr → String
  | .discarded n => s!"disc:{n}"
  | .invalidEsc a b c d => s!"esc:{hexOf [a, b, c, d]}"
  | .oom => "oom"
  | .invalidMsg r c mis pad bad => s!"inv:{hex16 r}:{hex16 c}:{b01 mis}:{pad.toNat}:{b01 bad}"

def showOut : Out → Option String
  | .none => none
  | .msg m => some s!"ok:{hexOf m}"
  | .err e => some (showErr e)
  | .panic _ => some "panic"

def showItem : Item → String
  | .ok m => s!"ok:{hexOf m}"
  | .err e => showErr e
  | .panic _ => "panic"

def showKind : IoKind → String
  | .eof => "eof" | .wouldBlock => "wb" | .other => "other"

def showRItem : RItem → String
  | .ok m => s!"ok:{hexOf m}"
  | .decErr e => showErr e
  | .ioErr k n => s!"io:{showKind k}:{n}"
  | .nbWouldBlock => "nbwb"
  | .none => "none"
  | .panic _ => "panic"

/-! ### printing ASTs -/

def showBytes (b : Bytes) : String := "x" ++ hexOf b
def showOpt {α : Type} (f : α → String) : Option α → String
  | none => "~"
  | some x => f x
def showTime : Time → String
  | .secIndex v => s!"T{v}"
def showStatus : Status → String
  | .status sz v => s!"S{8 * sz}:{v}"
def showValue : Value → String
  | .bool b => s!"B{b01 b}"
  | .bytes bs => showBytes bs
  | .int sz v => s!"I{8 * sz}:{v}"
  | .uns sz v => s!"U{8 * sz}:{v}"
  | .list (.time t) => s!"L({showTime t})"
def showInt (v : Int) : String := s!"{v}"
def showEntry (e : ListEntry) : String :=
  "E(" ++ ",".intercalate [showBytes e.objName, showOpt showStatus e.status, showOpt showTime e.valTime,
    showOpt showInt e.unit, showOpt showInt e.scaler, showValue e.value, showOpt showBytes e.valueSignature] ++ ")"
def showOpen (o : OpenResponse) : String :=
  "O(" ++ ",".intercalate [showOpt showBytes o.codepage, showOpt showBytes o.clientId, showBytes o.reqFileId,
    showBytes o.serverId, showOpt showTime o.refTime, showOpt showInt o.smlVersion] ++ ")"
def showClose (c : CloseResponse) : String := "C(" ++ showOpt showBytes c.globalSignature ++ ")"
def showGlr (g : GetListResponse) : String :=
  "G(" ++ ",".intercalate [showOpt showBytes g.clientId, showBytes g.serverId, showOpt showBytes g.listName,
    showOpt showTime g.actSensorTime, "[" ++ ";".intercalate (g.valList.map showEntry) ++ "]",
    showOpt showBytes g.listSignature, showOpt showTime g.actGatewayTime] ++ ")"
def showBody : MessageBody → String
  | .openResponse x => showOpen x
  | .closeResponse x => showClose x
  | .getListResponse x => showGlr x
def showMessage (m : Message) : String :=
  "M(" ++ ",".intercalate [showBytes m.transactionId, showInt m.groupNo, showInt m.abortOnError, showBody m.messageBody] ++ ")"
def showFile (f : File) : String := "F[" ++ ";".intercalate (f.messages.map showMessage) ++ "]"
def showGlrStart (g : GetListResponseStart) : String :=
  "GS(" ++ ",".intercalate [showOpt showBytes g.clientId, showBytes g.serverId, showOpt showBytes g.listName,
    showOpt showTime g.actSensorTime, s!"{g.numVals}"] ++ ")"
def showSBody : SBody → String
  | .openResponse x => showOpen x
  | .closeResponse x => showClose x
  | .getListResponse x => showGlrStart x
def showEvent : ParseEvent → String
  | .messageStart m =>
    "MS(" ++ ",".intercalate [showBytes m.transactionId, showInt m.groupNo, showInt m.abortOnError, showSBody m.messageBody] ++ ")"
  | .getListResponseEnd e => "GE(" ++ showOpt showBytes e.listSignature ++ "," ++ showOpt showTime e.actGatewayTime ++ ")"
  | .listEntry e => showEntry e
def showPErr : PErr → String
  | .leftoverInput => "LeftoverInput"
  | .unexpectedEOF => "UnexpectedEOF"
  | .tlfLengthOverflow => "TlfLengthOverflow"
  | .tlfReserved => "TlfReserved"
  | .tlfLengthUnderflow => "TlfLengthUnderflow"
  | .tlfNextByteTypeMismatch => "TlfNextByteTypeMismatch"
  | .tlfInvalidTy => "TlfInvalidTy"
  | .tlfMismatch => "TlfMismatch"
  | .crcMismatch => "CrcMismatch"
  | .msgEndMismatch => "MsgEndMismatch"
  | .unexpectedVariant => "UnexpectedVariant"
  | .panic _ => "panic"
def showSItem : SParser.SItem → String
  | .ev e => showEvent e
  | .err e => "err:" ++ showPErr e
def showOptSItem : Option SParser.SItem → String
  | none => "N"
  | some x => showSItem x
def showTy : Ty → String
  | .octetString => "octet" | .boolean => "bool" | .integer => "int" | .unsigned => "uns" | .listOf => "list"

def showSmlItem : SmlItem → String
  | .bytes m => s!"bytes:{hexOf m}"
  | .file f => "file:" ++ showFile f
  | .events evs => "events:[" ++ ";".intercalate (evs.map showSItem) ++ "]"
  | .parseErr e => "perr:" ++ showPErr e
  | .decErr e => showErr e
  | .ioErr k n => s!"io:{showKind k}:{n}"
  | .nbWouldBlock => "nbwb"
  | .none => "none"
  | .panic _ => "panic"

/-! ### request handlers -/

def bad : String := "bad-request"

/-- `enc <cap> <bytes>` -/
def doEnc : List String → String
  | [cap, p] =>
    match parseCap cap, parseBytes p with
    | some cap, some p =>
      match encodeBuf cap p with
      | .ok bs => "ok:" ++ hexOf bs
      | .oom => "oom"
      | .panic _ => "panic"
    | _, _ => bad
  | _ => bad

/-- `enci <bytes> <extra>`: iterate until the first None (bounded), then `extra` more calls -/
def doEnci : List String → String
  | [p, extra] =>
    match parseBytes p, extra.toNat? with
    | some p, some extra =>
      let fuel := 2 * p.length + 64
      let rec go (e : Enc) (fuel : Nat) (acc : List UInt8) : Enc × List UInt8 × String :=
        match fuel with
        | 0 => (e, acc, "nonterminating")
        | fuel + 1 =>
          match e.next with
          | (e', .byte b) => go e' fuel (b :: acc)
          | (e', .none) => (e', acc, "")
          | (e', .panic _) => (e', acc, "panic")
      let (e, racc, status) := go (Enc.new p) fuel []
      if status ≠ "" then status
      else
        let (_, tail) := e.run extra
        let t := String.ofList (tail.map fun o => match o with | .none => 'N' | .byte _ => 'B' | .panic _ => 'P')
        hexOrDash racc.reverse ++ " " ++ (if t.isEmpty then "-" else t)
    | _, _ => bad
  | _ => bad

/-- `encinf <hh> <n>`: the first n bytes of `encode_streaming(repeat(hh))` (an unbounded source) -/
def doEncInf : List String → String
  | [b, n] =>
    match parseHexChars b.toList, n.toNat? with
    | some [b], some n =>
      let (_, outs) := (Enc.new (List.replicate n b)).run n
      let bytes := outs.filterMap fun o => match o with | .byte x => some x | _ => none
      if bytes.length = n then hexOrDash bytes else "short"
    | _, _ => bad
  | _ => bad

/-- `frame <bytes>`: the wire-format specification -/
def doFrame : List String → String
  | [p] =>
    match parseBytes p with
    | some p => hexOf (Spec.frame p)
    | none => bad
  | _ => bad


/-! ### transition coverage of the decoder model (which (state, byte class, result) cells a run exercised) -/

def covSize : Nat := 17 * 5 * 7

def stIdx : DState → Nat
  | .look _ init => min init 7
  | .normal => 8
  | .escChars n => 8 + min (max n 1) 3
  | .escPayload step _ => 12 + min step 3
  | .done => 16

def clsIdx (b : UInt8) : Nat :=
  if b = 0x00 then 0 else if b = 0x1b then 1 else if b = 0x01 then 2 else if b = 0x1a then 3 else 4

def resIdx : Out → Nat
  | .none => 0
  | .msg _ => 1
  | .err (.discarded _) => 2
  | .err (.invalidEsc ..) => 3
  | .err .oom => 4
  | .err (.invalidMsg ..) => 5
  | .panic _ => 6

def stName (i : Nat) : String :=
  if i < 8 then s!"look{i}" else if i = 8 then "normal" else if i < 12 then s!"esc{i - 8}" else if i < 16 then s!"pay{i - 12}" else "done"
def clsName (i : Nat) : String := match i with | 0 => "00" | 1 => "1b" | 2 => "01" | 3 => "1a" | _ => "xx"
def resName (i : Nat) : String := match i with | 0 => "none" | 1 => "ok" | 2 => "disc" | 3 => "esc" | 4 => "oom" | 5 => "inv" | _ => "panic"

def covBump (cov : Array Nat) (d : Dec) (b : UInt8) (o : Out) : Array Nat :=
  let i := (stIdx d.st * 5 + clsIdx b) * 7 + resIdx o
  if h : i < cov.size then cov.set i (cov[i] + 1) else cov

def showCov (cov : Array Nat) : String :=
  let cells := (List.range cov.size).filterMap fun i =>
    let n := cov[i]!
    if n = 0 then none else some s!"{stName (i / 35)}/{clsName (i / 7 % 5)}/{resName (i % 7)}={n}"
  joinSp cells

/-- `dec <cap> <op>*` with ops = byte-string tokens (`Op.push` each), `F` (`Op.fin`), `R` (`Op.reset`),
`N` (`Op.new`), `B<bytes>` (`Op.fromBuf bytes`); all through `Dec.push` / `Dec.step` -/
def doDec (cov : Array Nat) : List String → String × Array Nat
  | cap :: ops =>
    match parseCap cap with
    | none => (bad, cov)
    | some cap =>
      let rec pushBytes (d : Dec) (idx : Nat) (acc : List String) (cov : Array Nat) :
          List UInt8 → Dec × Nat × List String × Array Nat
        | [] => (d, idx, acc, cov)
        | b :: bs =>
          let (d', o) := d.push b
          let cov := covBump cov d b o
          let idx := idx + 1
          match showOut o with
          | none => pushBytes d' idx acc cov bs
          | some s => pushBytes d' idx (s!"{idx}:{s}" :: acc) cov bs
      -- one non-byte operation through `Dec.step`; the response token is made from its `OpOut`
      let opTok (idx : Nat) : OpOut → String
        | .out _ => s!"{idx}:?"          -- not produced by `fin` / `reset` / `new` / `fromBuf`
        | .fin none => s!"{idx}:F:-"
        | .fin (some e) => s!"{idx}:F:{showErr e}"
        | .reset n => s!"{idx}:R:{n}"
        | .new => s!"{idx}:N"
        | .fromBuf => s!"{idx}:B"
      let rec go (d : Dec) (idx : Nat) (acc : List String) (cov : Array Nat) :
          List String → Option (List String) × Array Nat
        | [] => (some acc.reverse, cov)
        | "F" :: rest =>
          let (d', o) := d.step .fin
          go d' idx (opTok idx o :: acc) cov rest
        | "R" :: rest =>
          let (d', o) := d.step .reset
          go d' idx (opTok idx o :: acc) cov rest
        | "N" :: rest =>
          -- `Decoder::new()`: replace the decoder by a new one
          let (d', o) := d.step .new
          go d' idx (opTok idx o :: acc) cov rest
        | tok :: rest =>
          if tok.startsWith "B" then
            -- `Decoder::from_buf(buf)` with a buffer that already holds the given bytes
            match parseBytes (tok.drop 1).toString with
            | none => (none, cov)
            | some bs =>
              let (d', o) := d.step (.fromBuf bs)
              go d' idx (opTok idx o :: acc) cov rest
          else
          match parseBytes tok with
          | none => (none, cov)
          | some bs =>
            let (d', idx', acc', cov') := pushBytes d idx acc cov bs
            go d' idx' acc' cov' rest
      match go (Dec.fresh cap) 0 [] cov ops with
      | (none, cov) => (bad, cov)
      | (some evs, cov) => (joinSp evs, cov)
  | _ => (bad, cov)

/-- `decf <i1,i2,…|-> <op>*`: the push decoder over a growable buffer (`Decoder<Vec<u8>>`) whose allocator
fails during the bytes with the given indices (1-based count of bytes pushed so far, as in the response
tokens): the first `buf.push` attempted while that byte is processed reports `OutOfMemory`; all other pushes
succeed.  Ops as for `dec` (byte strings, `F`, `R`); through `DecF.push` / `DecF.step` -/
def doDecF : List String → String
  | fails :: ops =>
    let failIdx : Option (List Nat) :=
      if fails = "-" then some [] else (fails.splitOn ",").mapM (·.toNat?)
    match failIdx with
    | none => bad
    | some failIdx =>
      let rec pushBytes (d : Dec) (idx : Nat) (acc : List String) :
          List UInt8 → Dec × Nat × List String
        | [] => (d, idx, acc)
        | b :: bs =>
          let idx := idx + 1
          let f : DecF := { d := d, alloc := if failIdx.contains idx then [false] else [] }
          let (f', o) := f.push b
          match showOut o with
          | none => pushBytes f'.d idx acc bs
          | some s => pushBytes f'.d idx (s!"{idx}:{s}" :: acc) bs
      let rec go (d : Dec) (idx : Nat) (acc : List String) : List String → Option (List String)
        | [] => some acc.reverse
        | "F" :: rest =>
          match (({ d := d, alloc := [] } : DecF).step .fin) with
          | (f', .fin none) => go f'.d idx (s!"{idx}:F:-" :: acc) rest
          | (f', .fin (some e)) => go f'.d idx (s!"{idx}:F:{showErr e}" :: acc) rest
          | _ => none
        | "R" :: rest =>
          match (({ d := d, alloc := [] } : DecF).step .reset) with
          | (f', .reset n) => go f'.d idx (s!"{idx}:R:{n}" :: acc) rest
          | _ => none
        | tok :: rest =>
          match parseBytes tok with
          | none => none
          | some bs =>
            let (d', idx', acc') := pushBytes d idx acc bs
            go d' idx' acc' rest
      match go (Dec.fresh none) 0 [] ops with
      | none => bad
      | some evs => joinSp evs
  | _ => bad

/-- `decode <bytes>`: the `decode()` front-end -/
def doDecode : List String → String
  | [s] =>
    match parseBytes s with
    | some s => joinSp ((decodeAll s).map showItem)
    | none => bad
  | _ => bad

/-- `iter <cap> <bytes> <extra>`: `decode_streaming`, iterate to the first None then `extra` more calls -/
def doIter : List String → String
  | [cap, s, extra] =>
    match parseCap cap, parseBytes s, extra.toNat? with
    | some cap, some s, some extra =>
      let rec go (it : DecIter) (fuel : Nat) (acc : List String) : DecIter × List String :=
        match fuel with
        | 0 => (it, "nonterminating" :: acc)
        | fuel + 1 =>
          match it.next with
          | (it', none) => (it', acc)
          | (it', some x) => go it' fuel (showItem x :: acc)
      let (it, racc) := go (DecIter.new cap s) (s.length + 2) []
      let tail := (it.take extra).map fun o => match o with | none => "N" | some x => showItem x
      joinSp racc.reverse ++ " | " ++ joinSp tail
    | _, _, _ => bad
  | _ => bad

def parseKind : String → Option SrcKind
  | "mem" => some .mem | "io" => some .io | "eh" => some .eh | _ => none

def parseEvents (toks : List String) : Option (List Ev) :=
  toks.foldlM (fun acc t =>
    if t = "W" then some (acc ++ [Ev.wouldBlock])
    else if t = "I" then some (acc ++ [Ev.interrupted])
    -- `O`, `Oa`, `Ob`, …: any hard error (the suffix selects the concrete io::ErrorKind on the implementation side)
    else if t.startsWith "O" then some (acc ++ [Ev.other])
    -- `E` (Ok(0) / None), `Ee` (Err(UnexpectedEof)), `Ex` (UnexpectedEof with a payload): end of input for this attempt
    else if t.startsWith "E" then some (acc ++ [Ev.eof])
    else (parseBytes t).map fun bs => acc ++ bs.map Ev.byte) []

def parseCallChar : Char → Option Rdr.Call
  | 'r' => some .read | 'n' => some .next | 'R' => some .readNb | 'N' => some .nextNb | _ => none

def parseTargetChar : Char → Option Target
  | 'b' => some .bytes | 'f' => some .file | 'p' => some .parser | _ => none

/-- `rdr <kind> <cap> <calls> <event>*` -/
def doRdr : List String → String
  | kind :: cap :: calls :: evs =>
    match parseKind kind, parseCap cap, calls.toList.mapM parseCallChar, parseEvents evs with
    | some kind, some cap, some calls, some evs =>
      let (_, items) := (Rdr.new kind cap evs).calls calls
      joinSp (items.map showRItem)
    | _, _, _, _ => bad
  | _ => bad

def parseSmlCalls : List Char → Option (List (Rdr.Call × Target))
  | [] => some []
  | [_] => none
  | c :: t :: rest => do
    let c ← parseCallChar c
    let t ← parseTargetChar t
    let tl ← parseSmlCalls rest
    pure ((c, t) :: tl)

/-- `sml <kind> <cap> <calls> <event>*` with two characters per call (call, target) -/
def doSml : List String → String
  | kind :: cap :: calls :: evs =>
    match parseKind kind, parseCap cap, parseSmlCalls calls.toList, parseEvents evs with
    | some kind, some cap, some calls, some evs =>
      let (_, items) := (Rdr.new kind cap evs).smlCalls calls
      joinSp (items.map showSmlItem)
    | _, _, _, _ => bad
  | _ => bad

/-- `abuf <N> <op>*`: ops `pHH` push, `e<bytes>` extend, `t<k>` truncate, `c` clear, `i<bytes>` collect -/
def doAbuf : List String → String
  | n :: ops =>
    match n.toNat? with
    | none => bad
    | some n =>
      let vis (a : ArrayBuf) : String :=
        match a.deref with
        | .ok bs => hexOrDash bs
        | _ => "panic"
      let rec go (a : ArrayBuf) (acc : List String) : List String → Option (List String)
        | [] => some acc.reverse
        | op :: rest =>
          match op.toList with
          | 'p' :: h =>
            match parseHexChars h with
            | some [b] =>
              match a.push b with
              | .ok a' => go a' (("ok|" ++ vis a') :: acc) rest
              | .oom => go a (("oom|" ++ vis a) :: acc) rest
              | .panic _ => some (("panic" :: acc).reverse)
            | _ => none
          | 'e' :: h =>
            match parseBytes (String.ofList h) with
            | some bs =>
              match a.extendFromSlice bs with
              | .ok a' => go a' (("ok|" ++ vis a') :: acc) rest
              | .oom => go a (("oom|" ++ vis a) :: acc) rest
              | .panic _ => some (("panic" :: acc).reverse)
            | none => none
          | 't' :: k =>
            match (String.ofList k).toNat? with
            | some k => let a' := a.truncate k; go a' (("ok|" ++ vis a') :: acc) rest
            | none => none
          | ['c'] => let a' := a.clear; go a' (("ok|" ++ vis a') :: acc) rest
          | ['q'] =>
            -- `==` is `**self == **other` (util.rs:99-103): compare with a buffer freshly collected from the
            -- visible bytes, with one whose last byte differs, and with one that is one byte shorter
            match a.deref with
            | .ok v =>
              let eqv (x y : ArrayBuf) : Bool :=
                match x.deref, y.deref with
                | .ok p, .ok q => p == q
                | _, _ => false
              let mk (bs : List UInt8) : ArrayBuf :=
                match ArrayBuf.fromIter n bs with
                | .ok b => b
                | _ => ArrayBuf.new n
              let fresh := mk v
              let e1 := eqv a fresh && eqv fresh a
              let e2 := match v.reverse with
                | [] => false
                | l :: r => let other := mk ((l ^^^ 0x40) :: r).reverse; eqv a other || eqv other a
              let e3 := !v.isEmpty && (eqv a (mk v.dropLast) || eqv (mk v.dropLast) a)
              go a (s!"eq:{b01 e1}{b01 e2}{b01 e3}" :: acc) rest
            | _ => some (("panic" :: acc).reverse)
          | ['d'] =>
            -- `Debug` formats `**self` (util.rs:93-97): `{:?}` and `{:x?}` of the visible bytes
            match a.deref with
            | .ok v =>
              let hx (b : UInt8) : String :=
                if b.toNat < 16 then String.ofList [hexDigit b.toNat] else hexByte b
              let dec := "[" ++ ",".intercalate (v.map fun b => toString b.toNat) ++ "]"
              let hex := "[" ++ ",".intercalate (v.map hx) ++ "]"
              go a (s!"dbg:{dec}:{hex}" :: acc) rest
            | _ => some (("panic" :: acc).reverse)
          | 'i' :: h =>
            match parseBytes (String.ofList h) with
            | some bs =>
              match ArrayBuf.fromIter n bs with
              | .ok a' => go a' (("ok|" ++ vis a') :: acc) rest
              | .oom => some (("panic" :: acc).reverse)
              | .panic _ => go (ArrayBuf.new n) ("panic|-" :: acc) rest
            | none => none
          | _ => none
      match go (ArrayBuf.new n) [] ops with
      | none => bad
      | some rs => joinSp rs
  | _ => bad

/-- `tlf <bytes>` -/
def doTlf : List String → String
  | [s] =>
    match parseBytes s with
    | some bs =>
      match parseTlf bs with
      | .ok (t, rest) => s!"ok:{showTy t.ty}:{t.len}:{bs.length - rest.length}"
      | .error e => "err:" ++ showPErr e
    | none => bad
  | _ => bad

/-- `prim <kind> <bytes>` with kind ∈ u8 u16 u32 u64 i8 i16 i32 i64 bool octet value status time entry -/
def doPrim : List String → String
  | [kind, s] =>
    match parseBytes s with
    | none => bad
    | some bs =>
      let fin {α : Type} (f : α → String) (r : PRes α) : String :=
        match r with
        | .ok (v, rest) => s!"ok:{f v}:{bs.length - rest.length}"
        | .error e => "err:" ++ showPErr e
      match kind with
      | "u8" => fin showInt (parseInt false 1 bs)
      | "u16" => fin showInt (parseInt false 2 bs)
      | "u32" => fin showInt (parseInt false 4 bs)
      | "u64" => fin showInt (parseInt false 8 bs)
      | "i8" => fin showInt (parseInt true 1 bs)
      | "i16" => fin showInt (parseInt true 2 bs)
      | "i32" => fin showInt (parseInt true 4 bs)
      | "i64" => fin showInt (parseInt true 8 bs)
      | "bool" => fin b01 (parseViaTlf boolCheck parseBoolWith bs)
      | "octet" => fin showBytes (parseOctet bs)
      | "value" => fin showValue (parseValue bs)
      | "status" => fin showStatus (parseStatus bs)
      | "time" => fin showTime (parseTime bs)
      | "otime" => fin (showOpt showTime) (parseOpt parseTime bs)
      | "entry" => fin showEntry (parseListEntry bs)
      | _ => bad
  | _ => bad

/-- `parse <bytes>`: the allocating parser -/
def doParse : List String → String
  | [s] =>
    match parseBytes s with
    | some bs =>
      match parseFile bs with
      | .ok f => "ok:" ++ showFile f
      | .error e => "err:" ++ showPErr e
    | none => bad
  | _ => bad

/-- `stream <bytes> <extra>`: iterate the streaming parser to the first None/Err, then `extra` more calls -/
def doStream : List String → String
  | [s, extra] =>
    match parseBytes s, extra.toNat? with
    | some bs, some extra =>
      let rec go (p : SParser) (fuel : Nat) (acc : List String) : SParser × List String :=
        match fuel with
        | 0 => (p, "nonterminating" :: acc)
        | fuel + 1 =>
          match p.next with
          | (p', none) => (p', "N" :: acc)
          | (p', some (.err e)) => (p', ("err:" ++ showPErr e) :: acc)
          | (p', some (.ev x)) => go p' fuel (showEvent x :: acc)
      let (p, racc) := go (SParser.new bs) (bs.length + 3) []
      let (_, tail) := p.take extra
      joinSp racc.reverse ++ " | " ++ joinSp (tail.map showOptSItem)
    | _, _ => bad
  | _ => bad

/-- `crc <bytes>` -/
def doCrc : List String → String
  | [s] =>
    match parseBytes s with
    | some bs => hex16 (crc16 bs)
    | none => bad
  | _ => bad

def handle (cov : Array Nat) (line : String) : String × Array Nat :=
  match (line.trimAscii.toString.splitOn " ").filter (· ≠ "") with
  | "dec" :: args => doDec cov args
  | ["stats"] => (showCov cov, cov)
  | "enc" :: args => (doEnc args, cov)
  | "enci" :: args => (doEnci args, cov)
  | "encinf" :: args => (doEncInf args, cov)
  | "frame" :: args => (doFrame args, cov)
  | "decf" :: args => (doDecF args, cov)
  | "decode" :: args => (doDecode args, cov)
  | "iter" :: args => (doIter args, cov)
  -- non-fused sources: the iterator reports `None` after the first segment although more items would
  -- follow; both front-ends stop for good at the first `None`, so only the first segment counts
  | ["iterx", cap, s1, _s2, k] => (doIter [cap, s1, k], cov)
  | ["encix", s1, _s2, k] => (doEnci [s1, k], cov)
  | "rdr" :: args => (doRdr args, cov)
  | "sml" :: args => (doSml args, cov)
  | "abuf" :: args => (doAbuf args, cov)
  | "tlf" :: args => (doTlf args, cov)
  | "prim" :: args => (doPrim args, cov)
  | "parse" :: args => (doParse args, cov)
  | "stream" :: args => (doStream args, cov)
  | "crc" :: args => (doCrc args, cov)
  | _ => (bad, cov)

partial def loop (hin hout : IO.FS.Stream) (cov : Array Nat) : IO Unit := do
  let line ← hin.getLine
  if line.isEmpty then
    hout.flush
    return ()
  -- a leading `@` asks for the response to be flushed at once (interactive use by the shrinker)
  if line.startsWith "@" then
    let (r, cov) := handle cov (line.drop 1).toString
    hout.putStrLn r
    hout.flush
    loop hin hout cov
  else
    let (r, cov) := handle cov line
    hout.putStrLn r
    loop hin hout cov

def main : IO Unit := do
  let hin ← IO.getStdin
  let hout ← IO.getStdout
  loop hin hout (Array.replicate covSize 0)
